"""C12: worker threads and references are reclaimed; pending futures keep working.
Real executors under the scheduler; references are dropped and gc.collect() is called at
scheduler-chosen points; thread exit and weakref liveness are observed."""
import gc, weakref, random
import detsched as det
import lib

det.KEEP_NAMED = False
det.TIMER_EPS = 0.001

DEBUG = False
PROBE = None
PROP = "C12"
MACHINE = None
NEEDS_POOL = False
N_QUICK = 1200
N_THOROUGH = 40000
KINDS = ["retry", "poll", "throttle", "timeout"]
PREFIX = {"retry": "RetryExecutor-", "throttle": "ThrottleExecutor-", "timeout": "TimeoutExecutor-", "poll": "PollExecutor-"}


class ForgetfulManual(lib.Manual):
    """like a real pool: the work item (future, callable, arguments) is dropped once it has run"""

    def run(self, i):
        try:
            return lib.Manual.run(self, i)
        finally:
            with det.atomic():
                self.fs[i] = None


class Obj(object):
    def __init__(self, tag):
        self.tag = tag


class Fn(object):
    def __init__(self, script, res):
        self.script = script
        self.k = 0
        self.res = res

    def __call__(self, arg):
        k = self.k
        self.k += 1
        if self.script[min(k, len(self.script) - 1)] == "err":
            raise KeyError("x")
        return self.res


def gen(rng):
    kind = rng.choice(KINDS)
    subs = []
    for s in range(rng.randint(1, 3)):
        subs.append({"script": [rng.choice(["ok", "err"]) for _ in range(2)] + ["ok"],
                     "fate": rng.choice(["complete", "complete", "cancel_early", "cancel_late", "pending_at_drop"])})
    return {"kind": kind, "subs": subs, "end": rng.choice(["shutdown", "shutdown_nowait", "drop", "drop", "exit"]), "drop_delay": rng.choice([0, 0, 1, 2]),
            "manual": rng.random() < 0.6,
            # a cancel-on-shutdown layer on top (no thread of its own, but it keeps a set of the futures it returned)
            "cos": rng.random() < 0.3,
            # the user keeps the finished / cancelled future OBJECTS (not their callables, arguments, results) while dropping
            # the executor: a done future must not keep its executor - and so the worker thread - alive
            "keep_done": rng.random() < 0.35,
            # interpreter exit with further executors around: one the user dropped without shutdown while its poll thread is busy
            # (the hook's wake-up lets that thread finish its iteration and the executor is reclaimed WHILE the hook is still
            # walking its list of events), and one created after it, which must be woken all the same
            "exit_others": rng.random() < 0.5}


def execute(p, chooser):
    from more_executors import Executors
    from more_executors._impl import event as mevent
    obs = {"params": p, "dead": {}, "thread_done": None, "outs": {}, "late_done": None}

    def main():
        det.emit("case", None, repr(p))
        mevent.GLOBAL_HANDLER.shutdown = False
        m = ForgetfulManual() if p["manual"] else None
        with det.atomic():
            base = m if m is not None else Executors.sync()
            k = p["kind"]
            if k == "retry":
                ex = Executors.with_retry(base, max_attempts=3, sleep=1)
            elif k == "poll":
                def poll_fn(ds):
                    for d in ds:
                        d.yield_result(d.result)
                ex = Executors.with_poll(base, poll_fn, default_interval=1)
            elif k == "throttle":
                ex = Executors.with_throttle(base, 1)
            else:
                ex = Executors.with_timeout(base, 50)
            if p.get("cos"):
                ex = Executors.with_cancel_on_shutdown(ex)
        worker = [t for t in det.S.threads.values() if t.name.startswith(PREFIX[k])][-1]
        refs = {}
        futs = {}
        for s, spec in enumerate(p["subs"]):
            res, arg = Obj("res%d" % s), Obj("arg%d" % s)
            fn = Fn(spec["script"], res)
            refs[s] = {"fn": weakref.ref(fn), "arg": weakref.ref(arg), "res": weakref.ref(res)}
            futs[s] = ex.submit(fn, arg)
            refs[s]["fut"] = weakref.ref(futs[s])
            del fn, arg, res

        def env():
            # complete delegate futures of the manual executor (attempts may be re-submitted)
            done = 0
            while True:
                det.wait_until(lambda: stop["v"] or len(m.fs) > done)
                if len(m.fs) <= done:
                    return
                i = done
                done += 1
                s_idx = None
                try:
                    m.run(i)
                except Exception:
                    pass
        stop = {"v": False}
        pend = [s for s, spec in enumerate(p["subs"]) if spec["fate"] == "pending_at_drop"]
        for s, spec in enumerate(p["subs"]):
            if spec["fate"] == "cancel_early":
                futs[s].cancel()
        et = det.spawn("env", env, daemon=True) if m is not None else None
        det.sleep(p["drop_delay"])
        for s, spec in enumerate(p["subs"]):
            if spec["fate"] == "cancel_late":
                futs[s].cancel()
        # wait for the futures that are meant to finish
        want = [s for s, spec in enumerate(p["subs"]) if spec["fate"] != "pending_at_drop"]
        if m is None:
            pend = []
            want = list(range(len(p["subs"])))
        det.wait_until(lambda: all(futs[s]._state in ("CANCELLED", "CANCELLED_AND_NOTIFIED", "FINISHED") for s in want) or det.S.now > 60)
        # let every other thread come to rest (an environment thread may still be inside the
        # completing call, whose frame legitimately references the callable)
        def others_idle():
            sch = det.S
            return all(t.done or (t.blocked_on is not None and not t.blocked_on()) for t in sch.threads.values() if t.name != "main")
        det.wait_until(lambda: others_idle() or det.S.now > 90)
        for s in want:
            obs["outs"][s] = futs[s]._state
        # the user drops everything that belongs to finished futures; the executor lives on
        keep = {s: futs[s] for s in pend}
        # (not the failed ones: an exception object keeps its traceback, and through the frames' f_back chain whatever called the
        # callable - with an inline delegate that is the executor's own loop: Python's doing, and the user's to break)
        kept_done = [futs[s] for s in want if futs[s]._state != "FINISHED" or futs[s]._exception is None] if p.get("keep_done") else []
        kept_ids = set(id(f) for f in kept_done)
        kept_subs = set(s for s in want if id(futs[s]) in kept_ids)
        for s in want:
            del futs[s]
        gc.collect()
        for s in want:
            obs["dead"][s] = {k2: (r() is None) for k2, r in refs[s].items() if not (s in kept_subs and k2 in ("fut", "res"))}
        if DEBUG:
            import types
            for s in want:
                o = refs[s]["fn"]()
                if o is not None:
                    for ref in gc.get_referrers(o):
                        if isinstance(ref, types.FrameType):
                            print("  frame", ref.f_code.co_name, ref.f_lineno)
                        else:
                            print("  ", type(ref), str(ref)[:160])
                            for r2 in gc.get_referrers(ref):
                                if isinstance(r2, types.FrameType):
                                    print("      frame", r2.f_code.co_name, r2.f_lineno)
                                else:
                                    print("      ", type(r2), str(r2)[:120])
                    import sys as _sys
                    for tid, fr in _sys._current_frames().items():
                        while fr is not None:
                            for kk, vv in list(fr.f_locals.items()):
                                if vv is o or (isinstance(vv, (tuple, list)) and any(x is o for x in vv)):
                                    print("  LOCAL", fr.f_code.co_name, fr.f_lineno, kk)
                            fr = fr.f_back
                    del o
        end = p["end"]
        if end in ("shutdown", "shutdown_nowait"):
            t0 = det.S.now
            ex.shutdown(end == "shutdown")
            # shutdown() wakes the worker itself - with wait=False too: it must leave without a poll interval / back-off /
            # re-check timer having to expire first
            det.wait_until(lambda: worker.done or det.S.now > t0)
            obs["shutdown_dt"] = 0 if worker.done else 1
            det.wait_until(lambda: worker.done or det.S.now > 200)
            obs["thread_done"] = worker.done
        elif end == "exit":
            others = []
            if p.get("exit_others"):
                with det.atomic():
                    exa = Executors.with_poll(Executors.sync(), lambda ds: busy_poll(ds), default_interval=1)
                    eva = weakref.ref(exa._poll_event)

                def busy_poll(ds):
                    # stays inside the poll function (holding its executor) until the hook has woken THIS executor
                    det.wait_until(lambda: eva() is None or eva().flag)
                wa = [t for t in det.S.threads.values() if t.name.startswith("PollExecutor-")][-1]
                det.wait_until(lambda: wa.blocked_on is not None)       # inside the poll function, holding its executor
                del exa
                with det.atomic():
                    exb = Executors.with_retry(Executors.sync(), max_attempts=2, sleep=1)
                    exc = Executors.with_throttle(Executors.sync(), 1)
                wb = [t for t in det.S.threads.values() if t.name.startswith("RetryExecutor-")][-1]
                wc = [t for t in det.S.threads.values() if t.name.startswith("ThrottleExecutor-")][-1]
                others = [("dropped-busy", wa), ("later-retry", wb), ("later-throttle", wc)]
            t0 = det.S.now
            obs["exit_t0"] = t0
            mevent.GLOBAL_HANDLER.on_exiting()
            if others:
                det.wait_until(lambda: all(w.done for (_, w) in others) or det.S.now > t0)
                obs["exit_others_late"] = [nm for (nm, w) in others if not w.done]
                det.wait_until(lambda: all(w.done for (_, w) in others) or det.S.now > 200)
            # the hook itself must make the worker leave: not a fallback timer that happens to expire later
            det.wait_until(lambda: worker.done or det.S.now > t0)
            obs["exit_prompt"] = worker.done
            det.wait_until(lambda: worker.done or det.S.now > 200)
            obs["thread_done"] = worker.done
            mevent.GLOBAL_HANDLER.shutdown = False
        else:
            exref = weakref.ref(ex)
            del ex
            gc.collect()
            if pend:
                # pending futures must still be completed although the user dropped the executor
                stop_at = det.S.now + 40
                det.wait_until(lambda: all(f._state in ("CANCELLED", "CANCELLED_AND_NOTIFIED", "FINISHED") for f in keep.values()) or det.S.now > stop_at)
                obs["late_done"] = [f._state for f in keep.values()]
                keep.clear()
                gc.collect()
            # the last reference may be dropped by the worker itself at the end of its iteration; objects in
            # reference cycles additionally need a collector pass (CPython's timing, not the library's)
            for _ in range(4):
                if worker.done:
                    break
                det.sleep(1)
                gc.collect()
            if PROBE:
                PROBE()
            det.wait_until(lambda: worker.done or det.S.now > 300)
            obs["thread_done"] = worker.done
            obs["executor_dead"] = exref() is None
        del kept_done
        stop["v"] = True

    r = det.run(chooser, main)
    gc.collect()
    return r, obs


def encode(log):
    import zlib
    for (th, op, obj, val, ts) in log:
        if op == "case":
            return [[zlib.crc32(val.encode()) & 0xffffff, len(log) % 997]], []
    return [[len(log)]], []


def monitor(r, obs):
    p = obs["params"]
    if r.exc is not None:
        return [{"what": "harness-exception", "detail": getattr(r, "tb", repr(r.exc))[-700:], "pattern": "reclaim:harness-exc"}]
    if r.deadlock or r.hang:
        return [{"what": "deadlock %s" % (r.deadlock,), "detail": str(p), "pattern": "reclaim:deadlock"}]
    out = []
    for s, d in obs["dead"].items():
        if obs["outs"].get(s) in ("PENDING", "RUNNING"):
            continue
        alive = sorted(k for k, v in d.items() if not v)
        if alive:
            out.append({"what": "after future %d was done (%s) and dropped, the library still references its %s (fate %s)" %
                        (s, obs["outs"].get(s), alive, p["subs"][s]["fate"]), "detail": str(p),
                        "pattern": "reclaim:retained:%s:%s" % (p["kind"], ",".join(alive))})
    if obs["thread_done"] is False:
        out.append({"what": "worker thread still alive after %s" % p["end"], "detail": str(p), "pattern": "reclaim:thread-alive:" + p["end"]})
    if obs.get("shutdown_dt") and obs["thread_done"]:
        out.append({"what": "after %s the worker only left when a later timer expired, not when shutdown() woke it" % p["end"],
                    "detail": str(p), "pattern": "reclaim:shutdown-late:" + p["kind"]})
    if obs.get("exit_t0") is not None and p.get("exit_others"):
        # decided on the history: a worker that left at a LATER virtual time than the hook ran was released by a timer
        late = sorted(set(th for (th, op, o, v, ts) in r.log if op == "thread.exit" and th.startswith(tuple(PREFIX.values())) and ts > obs["exit_t0"]))
        if late and not obs.get("exit_others_late"):
            obs["exit_others_late"] = late
    if obs.get("exit_others_late"):
        out.append({"what": "the exit hook returned but the worker threads of other live executors (%s) were not woken by it" % obs["exit_others_late"],
                    "detail": str(p), "pattern": "reclaim:exit-late:others"})
    if obs.get("exit_prompt") is False and obs["thread_done"]:
        out.append({"what": "the exit hook returned but the worker thread only left when a later timer expired", "detail": str(p),
                    "pattern": "reclaim:exit-late:" + p["kind"]})
    if obs.get("late_done") and any(st in ("PENDING", "RUNNING") for st in obs["late_done"]):
        out.append({"what": "a pending future was not completed after the executor was dropped: %s" % obs["late_done"], "detail": str(p),
                    "pattern": "reclaim:pending-abandoned:" + p["kind"]})
    return out


def nontrivial(r, obs, events):
    return r.preempts > 0


def describe(p):
    return ["kind=" + p["kind"], "end=" + p["end"], "manual" if p["manual"] else "sync", "subs=%d" % len(p["subs"])]


def extra(stats, tier, seed):
    """Directed (shared with C11): under each thread-owning layer a delegate whose shutdown() raises - the layer is shut down all the same and its worker
    thread must still exit (`Each executor's worker thread exits after shutdown()`), not stay parked for ever."""
    import drive
    import p_c11
    known_patterns = set(k["pattern"] for k in drive.load_known(PROP))

    def viol(what, pattern, detail=None):
        v = {"what": what, "pattern": pattern, "detail": detail, "case": {"params": {}, "chooser": "none", "cseed": 0, "origin": "directed"}}
        if pattern in known_patterns:
            stats.known.setdefault(pattern, v)
        else:
            stats.violations.append(v)
    p_c11.faulty_delegate_checks(stats, tier, seed, viol, hang_pattern="reclaim:thread-alive:faulty-delegate-shutdown",
                                 alive_pattern="reclaim:thread-alive:faulty-delegate-shutdown", other_pattern="reclaim:after-failed-delegate-shutdown")
