"""Shared pieces of the correspondence harness (runs under /venv/bin/python with PYTHONPATH=/repo)."""
import os, sys, json, subprocess, random, time, gc, collections, hashlib

HERE = os.path.dirname(os.path.abspath(__file__))
VERIF = os.path.dirname(HERE)
RUNNER = os.path.join(VERIF, "coq", "Extract", "runner")

import detsched as det
from concurrent.futures import Future, Executor


class YFuture(Future):
    """A delegate future whose comparison is a scheduling point: library code that scans a shared container for
    'its' future (`job.delegate_future == f`) can be preempted in the middle of the scan, as it can under the GIL.
    Comparison stays identity."""

    def __eq__(self, other):
        det.switch("eq")
        return self is other

    def __ne__(self, other):
        det.switch("eq")
        return self is not other

    __hash__ = Future.__hash__


class Manual(Executor):
    """Environment: a delegate executor whose futures are completed by scenario ('env') code.
    submit/shutdown are visible operations."""

    def __init__(self, prefix="d", sync_script=None):
        self.fs = []
        self.shut = []
        self.prefix = prefix
        self.sync_script = sync_script   # optional: list of bool, True = run inline inside submit
        self.refuse = False
        self.inline_hook = None

    def submit(self, fn, *a, **k):
        det.switch("deleg.submit")
        if self.refuse:
            det.emit("deleg.submit.refused", self.prefix)
            raise RuntimeError("cannot schedule new futures after shutdown")
        idx = len(self.fs)
        with det.atomic():
            f = YFuture()
            if det.S is not None:
                det.S.name(f, "%s%d" % (self.prefix, idx))
            self.fs.append((f, fn, a, k))
            inline = bool(self.sync_script and idx < len(self.sync_script) and self.sync_script[idx])
        det.emit("deleg.submit", self.prefix, (idx, 1 if inline else 0))
        if inline:
            with det.atomic():
                f.set_running_or_notify_cancel()
                try:
                    r = fn(*a, **k)
                except Exception as e:
                    f.set_exception(e)
                else:
                    f.set_result(r)
            if self.inline_hook is not None:
                self.inline_hook(idx)
        return f

    def shutdown(self, wait=True, **kw):
        det.switch("deleg.shutdown")
        det.emit("deleg.shutdown", self.prefix, (bool(wait), tuple(sorted(kw.items()))))
        self.shut.append((wait, kw))

    # environment actions (each stdlib Future method inside is its own visible operation)
    def start(self, i):
        return self.fs[i][0].set_running_or_notify_cancel()

    def finish(self, i, outcome=None):
        f, fn, a, k = self.fs[i]
        if outcome is None:
            try:
                r = fn(*a, **k)
            except Exception as e:
                f.set_exception(e)
            else:
                f.set_result(r)
        elif isinstance(outcome, BaseException):
            f.set_exception(outcome)
        else:
            f.set_result(outcome[0])

    def run(self, i):
        if not self.start(i):
            return False
        self.finish(i)
        return True


class RunnerProc(object):
    """The extracted OCaml model runner, fed one trace per line."""

    def __init__(self):
        if not os.path.exists(RUNNER):
            raise RuntimeError("model runner not built: " + RUNNER)
        self.p = subprocess.Popen([RUNNER], stdin=subprocess.PIPE, stdout=subprocess.PIPE,
                                  universal_newlines=True, bufsize=1)

    def ask(self, machine, events):
        line = machine + " " + " ; ".join(" ".join(str(int(x)) for x in e) for e in events)
        self.p.stdin.write(line + "\n")
        self.p.stdin.flush()
        out = self.p.stdout.readline()
        if not out:
            raise RuntimeError("model runner died on: " + line[:200])
        return [int(x) for x in out.split()]

    def close(self):
        try:
            self.p.stdin.close()
            self.p.wait(5)
        except Exception:
            self.p.kill()


class Tids(object):
    """Deterministic thread-name -> small integer mapping in order of first appearance."""

    def __init__(self, fixed=None):
        self.m = dict(fixed or {})

    def __call__(self, name):
        if name not in self.m:
            self.m[name] = len(self.m)
        return self.m[name]


def trace_key(events):
    return hashlib.sha1(json.dumps(events).encode()).hexdigest()[:16]


class Stats(object):
    """What a run covered: counted, not asserted."""

    def __init__(self):
        self.evaluations = 0
        self.keys = set()
        self.nontrivial_keys = set()
        self.samples = []
        self.dist = collections.Counter()
        self.divergences = []
        self.violations = []
        self.known = collections.OrderedDict()
        self.events = 0

    def add(self, events, nontrivial, sample=None, tags=()):
        self.evaluations += 1
        self.events += len(events)
        k = trace_key(events)
        if k not in self.keys:
            self.keys.add(k)
            if nontrivial:
                self.nontrivial_keys.add(k)
                if len(self.samples) < 3 and sample is not None:
                    self.samples.append(sample)
        for t in tags:
            self.dist[t] += 1

    def summary(self):
        return {
            "evaluations": self.evaluations,
            "distinct": len(self.keys),
            "distinct_nontrivial": len(self.nontrivial_keys),
            "samples": self.samples,
            "distribution": dict(self.dist),
            "events": self.events,
            "divergences": self.divergences[:20],
            "n_divergences": len(self.divergences),
            "violations": self.violations[:20],
            "n_violations": len(self.violations),
            "known": list(self.known.values()),
        }


def between(gcevery=50):
    """Housekeeping between schedules (outside any scheduled run)."""
    gc.collect()


def tier_count(tier, quick, thorough):
    return thorough if tier == "thorough" else quick


def out_json(obj):
    sys.stdout.write("@@RESULT@@" + json.dumps(obj) + "\n")
    sys.stdout.flush()
