"""C02 (RetryFuture): cancel() answers a bool and never raises, callbacks once, outcome set once, under racing cancels; scenario family and lockstep of C06 on Model/Retry.v.
Only the protocol verdicts of that family's monitor count here; every history is still replayed on the component machine."""
import p_c06r as base

PROP = "C02"
MACHINE = base.MACHINE
N_QUICK = 800
N_THOROUGH = 30000
KEEP = ("retry:deadlock", "retry:thread-died:worker", "retry:thread-died:other", "retry:harness-exc", "retry:callback-count", "retry:early-callback", "retry:wrong-outcome", "retry:cancel-raised", "retry:cancel-true-not-cancelled")
if hasattr(base, "setup"):
    setup = base.setup
if hasattr(base, "expected_verdict"):
    expected_verdict = base.expected_verdict

gen = base.gen
execute = base.execute
encode = base.encode


def monitor(r, obs):
    return [v for v in base.monitor(r, obs) if v["pattern"].startswith(KEEP)]


nontrivial = base.nontrivial
describe = base.describe
