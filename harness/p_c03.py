"""C03: no future is lost -- every future reaches a terminal state once its work has (value,
exception, cancellation through it or behind its back), no later than the virtual time implied by
the configured delays; real stacks under the scheduler with a virtual clock (a lost wake-up shows as
a completion that waits for a fallback timer, a lost future as one that never completes)."""
import random
import detsched as det
import lib

det.TIMER_EPS = 0.001

PROP = "C03"
MACHINE = None
NEEDS_POOL = True
N_QUICK = 1500
N_THOROUGH = 60000
KINDS = ["map", "flat_map", "poll", "retry", "throttle", "timeout", "cancel_on_shutdown"]
DONE = ("CANCELLED", "CANCELLED_AND_NOTIFIED", "FINISHED")


def gen(rng):
    depth = rng.randint(1, 4)
    layers = [rng.choice(KINDS) for _ in range(depth)]
    subs = []
    for s in range(rng.randint(1, 4)):
        subs.append({"script": [rng.choice(["ok", "err", "ok"]) for _ in range(3)] + ["ok"], "block": rng.random() < 0.3,
                     "cancel_at": rng.choice([None, None, None, 0, 1, 2])})
    return {"base": rng.choice(["sync", "pool", "pool"]), "layers": layers, "subs": subs, "timeout": rng.choice([10 ** 6, 10 ** 6, 3]),
            "inner_cancel_at": rng.choice([None, None, 1])}


def budget(p):
    """an upper bound on the virtual time by which everything must have finished: retries
    (max_attempts 3, sleep 1, exponent 2 -> 1 + 2 per retry layer, nested retries multiply), poll
    interval 1 per poll layer, the gate opening at t=2, the configured timeout if it is small"""
    t = 2.0
    mult = 1
    for k in p["layers"]:
        if k == "retry":
            t = t * 3 + 3
        if k == "poll":
            t += 1 * 3
    if p["timeout"] < 100:
        t += p["timeout"]
    return t + 5


def execute(p, chooser):
    from more_executors import Executors
    from more_executors.futures import f_return
    obs = {"params": p, "outs": {}, "done_at": {}, "chain": {}}

    def main():
        det.emit("case", None, repr(p))
        gate = {"open": False}
        inner = []
        with det.atomic():
            ex = Executors.sync() if p["base"] == "sync" else Executors.thread_pool(max_workers=2)
            base = ex
            for k in p["layers"]:
                if k == "map":
                    ex = ex.with_map(lambda v: v)
                elif k == "flat_map":
                    ex = ex.with_flat_map(lambda v: f_return(v))
                elif k == "poll":
                    def poll_fn(ds):
                        for d in ds:
                            d.yield_result(d.result)
                    ex = ex.with_poll(poll_fn, default_interval=1)
                elif k == "retry":
                    ex = ex.with_retry(max_attempts=3, sleep=1)
                elif k == "throttle":
                    ex = ex.with_throttle(1)
                elif k == "timeout":
                    ex = ex.with_timeout(p["timeout"])
                else:
                    ex = ex.with_cancel_on_shutdown()
        top = ex
        futs = {}

        def mk(s, spec):
            st = {"k": 0}

            def fn():
                k = st["k"]
                st["k"] += 1
                if spec["block"] and p["base"] == "pool":
                    det.wait_until(lambda: gate["open"])
                if spec["script"][min(k, 3)] == "err":
                    raise KeyError(s)
                return s
            return fn
        for s, spec in enumerate(p["subs"]):
            futs[s] = top.submit(mk(s, spec))
            futs[s].add_done_callback(lambda f, s=s: obs["done_at"].__setitem__(s, det.now()))

        def canceller():
            t = 0
            for at in sorted(set(x["cancel_at"] for x in p["subs"] if x["cancel_at"] is not None)):
                det.sleep(at - t)
                t = at
                for s, spec in enumerate(p["subs"]):
                    if spec["cancel_at"] == at:
                        futs[s].cancel()

        def opener():
            det.sleep(2)
            gate["open"] = True
        ts = [det.spawn("x", canceller), det.spawn("op", opener)]
        for t in ts:
            t.join()
        lim = budget(p)
        det.wait_until(lambda: all(f._state in DONE for f in futs.values()) or quiescent() or det.S.now > lim * 4 + 100)
        with det.atomic():
            for s, f in futs.items():
                obs["outs"][s] = f._state
                # describe the chain of library futures below a pending one
                ch = []
                g = f
                seen = 0
                while g is not None and seen < 10:
                    seen += 1
                    d = getattr(g, "_delegate", None)
                    if d is None:
                        d = getattr(g, "delegate_future", None)
                    ch.append((type(g).__name__, g._state, "nodelegate" if d is None else "delegate"))
                    g = d
                obs["chain"][s] = ch
        top.shutdown(False)

    def quiescent():
        s = det.S
        others = [t for t in s.threads.values() if not t.done and t.name != "main"]
        return all((t.blocked_on is not None and not t.blocked_on() and t.wake_at is None) for t in others)

    r = det.run(chooser, main)
    return r, obs


def encode(log):
    import zlib
    for (th, op, obj, val, ts) in log:
        if op == "case":
            return [[zlib.crc32(val.encode()) & 0xffffff, len(log) % 997]], []
    return [[len(log)]], []


def classify(chain):
    """the lowest pending library future and what its delegate looks like"""
    pend = [c for c in chain if c[1] in ("PENDING", "RUNNING")]
    if not pend:
        return "lost:unknown"
    idx = max(i for i, c in enumerate(chain) if c[1] in ("PENDING", "RUNNING"))
    name, st, dl = chain[idx]
    below = chain[idx + 1] if idx + 1 < len(chain) else None
    if name in ("MapFuture", "FlatMapFuture", "ThrottleFuture", "NoCancelFuture", "ProxyFuture") and dl == "nodelegate":
        return "lost:delegate-cancelled-behind-back:MapFuture"
    if below is not None and below[1] in ("CANCELLED", "CANCELLED_AND_NOTIFIED"):
        return "lost:delegate-cancelled-behind-back:" + name
    return "lost:%s:%s" % (name, dl)


def monitor(r, obs):
    p = obs["params"]
    if r.exc is not None:
        return [{"what": "harness-exception", "detail": getattr(r, "tb", repr(r.exc))[-600:], "pattern": "lost:harness-exc"}]
    if r.deadlock or r.hang:
        pat = "lost:deadlock"
        w = getattr(r, "waiting", {}) or {}
        for th, (lock, owner) in w.items():
            if str(owner).startswith("RetryExecutor") and owner in w:
                pat = "deadlock:retry-submit-thread-holds-locks-across-delegate-submit"
        return [{"what": "deadlock %s %s" % (r.deadlock, w), "detail": str(p), "pattern": pat}]
    out = []
    for (nm, dn, e) in r.threads:
        if e is not None:
            out.append({"what": "thread %s died with %s" % (nm, e), "detail": nm, "pattern": "lost:thread-died"})
    lim = budget(p)
    for s, st in obs["outs"].items():
        if st not in DONE:
            out.append({"what": "future of submission %d is still %s although nothing can happen any more; chain %s" % (s, st, obs["chain"][s]),
                        "detail": str(p), "pattern": classify(obs["chain"][s])})
        elif obs["done_at"].get(s, 0) > lim:
            out.append({"what": "future of submission %d finished at virtual time %s, the configured delays allow %s" % (s, obs["done_at"][s], lim),
                        "detail": str(p), "pattern": "lost:late"})
    return out


def nontrivial(r, obs, events):
    p = obs["params"]
    return r.preempts > 0 and (any(s["cancel_at"] is not None for s in p["subs"]) or any(s["script"][0] == "err" for s in p["subs"]))


def describe(p):
    return ["base=" + p["base"], "depth=%d" % len(p["layers"]), "subs=%d" % len(p["subs"])] + ["has_" + k for k in sorted(set(p["layers"]))]
