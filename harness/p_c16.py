"""C16: f_apply -- arities x completion orders x failing inputs, with a non-commutative recording
function, under the scheduler (completions from several threads)."""
import random
import detsched as det
import lib
from concurrent.futures import Future

PROP = "C16"
MACHINE = None
N_QUICK = 1500
N_THOROUGH = 40000
DONE = ("CANCELLED", "CANCELLED_AND_NOTIFIED", "FINISHED")
det.KEEP_NAMED = False     # the caller may drop the output (below): the scheduler must not be what keeps the chain alive


class FalsyError(KeyError):
    def __bool__(self):
        return False


class BaseBoom(BaseException):
    pass


def gen(rng):
    npos = rng.randint(0, 4)
    nkw = rng.randint(0, 3)
    n = npos + nkw + 1
    fail = rng.choice([None, None, None] + list(range(n)))
    order = list(range(n))
    rng.shuffle(order)
    return {"npos": npos, "nkw": nkw, "fail": fail, "order": order, "pre": [rng.random() < 0.3 for _ in range(n)],
            "fn_raises": rng.random() < 0.2, "fn_exc": rng.randrange(4), "env_threads": rng.randint(1, 3),
            # arguments whose VALUE is itself a future (pending / done / failed): passed to fn as they are
            # the failing input's exception object: ordinary, falsy, a BaseException that is not an Exception (what a pool
            # stores for a callable that called sys.exit()), an exception type the future machinery gives a meaning of its own
            "boom_kind": rng.choice(["key", "key", "falsy", "base", "cancelled", "stopiter"]),
            # inputs that are library futures themselves (f_proxy / f_nocancel / f_map over the environment future)
            "wrap": {str(i): rng.choice(["proxy", "nocancel", "map"]) for i in range(n) if rng.random() < 0.2},
            # done-callbacks (some raising) that somebody registered on an input BEFORE f_apply attached its own
            "early_cbs": {str(i): rng.random() < 0.6 for i in range(n) if rng.random() < 0.25},
            # the caller keeps no reference to the output: it only registers a done-callback on it (or relies on fn's effect)
            "drop_out": rng.random() < 0.25,
            "futvals": {str(i): rng.choice(["pending", "done", "failed"]) for i in range(1, n) if rng.random() < 0.12}}


def execute(p, chooser):
    from more_executors.futures import f_apply
    obs = {"params": p, "calls": [], "res": None}

    def main():
        det.emit("case", None, sorted((k, str(v)) for k, v in p.items()))
        n = p["npos"] + p["nkw"] + 1
        with det.atomic():
            futs = [Future() for _ in range(n)]
        vals = {i: ("a", i) for i in range(1, n)}
        with det.atomic():
            for i, kind in p.get("futvals", {}).items():
                inner = Future()
                if kind == "done":
                    inner.set_result("inner")
                elif kind == "failed":
                    inner.set_exception(RuntimeError("inner failure"))
                vals[int(i)] = inner
        obs["vals"] = vals
        from concurrent.futures import CancelledError
        boom = {"key": KeyError("input"), "falsy": FalsyError("input"), "base": BaseBoom("input"),
                "cancelled": CancelledError("input"), "stopiter": StopIteration("input")}[p.get("boom_kind", "key")]
        fnexc = [ValueError("fn"), CancelledError(), StopIteration("fn"), TimeoutError("fn")][p.get("fn_exc", 0)]

        def fn(*a, **k):
            pend = [i for i, f in enumerate(futs) if f._state not in DONE]
            obs["calls"].append((a, tuple(sorted(k.items())), pend))
            if p["fn_raises"]:
                raise fnexc
            return ("r", a, tuple(sorted(k.items())))

        def complete(i):
            if p["fail"] == i:
                futs[i].set_exception(boom)
            elif i == 0:
                futs[0].set_result(fn)
            else:
                futs[i].set_result(vals[i])

        with det.atomic():
            for i in range(n):
                if p["pre"][i]:
                    complete(i)
        from more_executors.futures import f_proxy, f_nocancel, f_map
        with det.atomic():
            given = list(futs)
            for i, w in p.get("wrap", {}).items():
                f = futs[int(i)]
                given[int(i)] = f_proxy(f) if w == "proxy" else f_nocancel(f) if w == "nocancel" else f_map(f, lambda x: x)
        for i, raises in sorted(p.get("early_cbs", {}).items()):
            def early(f, raises=raises):
                if raises:
                    raise RuntimeError("early callback fault")
            given[int(i)].add_done_callback(early)
        kw = {"k%d" % j: given[1 + p["npos"] + j] for j in range(p["nkw"])}
        out = f_apply(given[0], *given[1:1 + p["npos"]], **kw)
        seen = []
        if p.get("drop_out"):
            out.add_done_callback(lambda f: seen.append((f._state, f._exception if f._state == "FINISHED" else None,
                                                         f._result if f._state == "FINISHED" else None)))
            del out, kw, given
            import gc
            with det.atomic():
                gc.collect()
        todo = [i for i in p["order"] if not p["pre"][i]]

        def env():
            while todo:
                det.switch("env")
                if not todo:
                    break
                complete(todo.pop(0))
        ts = [det.spawn("e%d" % k, env) for k in range(p["env_threads"])]
        for t in ts:
            t.join()
        with det.atomic():
            if p.get("drop_out"):
                obs["res"] = (seen[0] if seen else ("PENDING", None, None)) + (boom, fnexc)
            else:
                st = out._state
                obs["res"] = (st, out._exception if st == "FINISHED" else None, out._result if st == "FINISHED" else None, boom, fnexc)

    r = det.run(chooser, main)
    return r, obs


def encode(log):
    import zlib
    for (th, op, obj, val, ts) in log:
        if op == "case":
            return [[zlib.crc32(repr(val).encode()) & 0xffffff, len(log)]], []
    return [[len(log)]], []


def monitor(r, obs):
    out = []
    p = obs["params"]
    if r.deadlock or r.hang:
        return [{"what": "deadlock", "detail": str(p), "pattern": "apply:deadlock"}]
    if r.exc is not None:
        return [{"what": "harness-exception", "detail": getattr(r, "tb", repr(r.exc))[-500:], "pattern": "apply:harness-exc"}]
    st, exc, res, boom, fnexc = obs["res"]
    calls = obs["calls"]
    vals = obs["vals"]
    want_a = tuple(vals[i] for i in range(1, 1 + p["npos"]))
    want_k = tuple(sorted(("k%d" % j, vals[1 + p["npos"] + j]) for j in range(p["nkw"])))
    if p["fail"] is not None:
        if calls:
            out.append({"what": "fn was called although input %d failed" % p["fail"], "detail": str(p), "pattern": "apply:called-on-failure"})
        if st != "FINISHED" or exc is not boom:
            out.append({"what": "output is %s/%r, expected the failing input's exception" % (st, exc), "detail": str(p), "pattern": "apply:failure-not-propagated"})
        return out
    if len(calls) != 1:
        out.append({"what": "fn called %d times" % len(calls), "detail": str(p), "pattern": "apply:call-count"})
        return out
    a, k, pend = calls[0]
    if pend:
        out.append({"what": "fn called while inputs %s were unresolved" % pend, "detail": str(p), "pattern": "apply:called-early"})
    if a != want_a or k != want_k:
        out.append({"what": "fn received %r %r, expected %r %r" % (a, k, want_a, want_k), "detail": str(p), "pattern": "apply:argument-order"})
    if p["fn_raises"]:
        if st != "FINISHED" or exc is not fnexc:
            out.append({"what": "fn raised but output is %s/%r" % (st, exc), "detail": str(p), "pattern": "apply:fn-exception"})
    elif st != "FINISHED" or res != ("r", want_a, want_k):
        out.append({"what": "output %s %r" % (st, res), "detail": str(p), "pattern": "apply:result"})
    return out


def nontrivial(r, obs, events):
    p = obs["params"]
    return p["npos"] + p["nkw"] >= 2 and r.preempts > 0


def describe(p):
    return ["npos=%d" % p["npos"], "nkw=%d" % p["nkw"], "fail" if p["fail"] is not None else "nofail"]
