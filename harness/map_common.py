"""Scenario family + adapter for MapFuture / FlatMapFuture (the _Future protocol) against Model/MapFut.v.
Library futures are built directly on environment-controlled stdlib futures."""
import random, itertools
import detsched as det
import lib
from concurrent.futures import Future

MACHINE = "mapfut"
DONE = ("CANCELLED", "CANCELLED_AND_NOTIFIED", "FINISHED")
NEXT = 5


class XE(Exception):
    pass


class BXE(BaseException):
    pass


class FV(tuple):
    """a result value that is FALSY (as 0, "", [] or None are) but still compares equal to the plain tuple: the library
    must never decide by the truthiness of a result or of an object returned by a user function"""

    def __bool__(self):
        return False


def val(v):
    return FV(("v", v)) if v % 4 == 0 else ("v", v)


class FXE(XE):
    """an exception object that is falsy (as error aggregates with __len__ == 0 are): the library must test
    `is not None`, never truthiness"""

    def __bool__(self):
        return False


def gen(rng, cancels=True, envcancel=True, cbraise=True):
    next_ = rng.randint(2, NEXT)
    futs = []
    for i in range(rng.randint(1, 3)):
        kind = rng.choice([0, 0, 1])
        hasfn = True if kind == 1 else rng.random() < 0.7
        hasefn = rng.random() < 0.5
        if kind == 1:
            fn = rng.choice([["fut", rng.randrange(next_)], ["fut", rng.randrange(next_)], ["ret", rng.randrange(50)], ["raise", 100 + rng.randrange(20)]])
            efn = rng.choice([["fut", rng.randrange(next_)], ["same"], ["raise", 120 + rng.randrange(20)], ["ret", rng.randrange(50)]])
        else:
            fn = rng.choice([["ret", rng.randrange(50)], ["ret", rng.randrange(50)], ["raise", 100 + rng.randrange(20)]])
            efn = rng.choice([["ret", rng.randrange(50)], ["same"], ["raise", 120 + rng.randrange(20)]])
        futs.append({"kind": kind, "hasfn": hasfn, "hasefn": hasefn, "d": rng.randrange(next_), "fn": fn, "efn": efn,
                     "cbs": [(rng.random() < 0.25 and cbraise) for _ in range(rng.randint(0, 2))],
                     "late_cbs": [(rng.random() < 0.25 and cbraise) for _ in range(rng.randint(0, 1))],
                     "cancels": (rng.choice([0, 0, 1, 2]) if cancels else 0)})
    env = []
    for d in range(next_):
        r = rng.random()
        if r < 0.45:
            env.append([d, "ok", rng.randrange(50), rng.random() < 0.5])
        elif r < 0.75:
            env.append([d, "err", 200 + d, rng.random() < 0.5])
        elif r < 0.9 and envcancel:
            env.append([d, "cancel", 0, False])
        # else: never finishes
    rng.shuffle(env)
    return {"next": next_, "futs": futs, "env": env, "nclients": rng.randint(1, 2), "env_threads": rng.randint(1, 2),
            "pre_done": [rng.random() < 0.25 for _ in range(next_)]}


def execute(p, chooser):
    from more_executors._impl.map import MapFuture
    from more_executors._impl.flat_map import FlatMapFuture
    obs = {"params": p, "futs": {}, "outs": {}, "cancel_rets": [], "fn_calls": {}, "efn_calls": {}, "cb_calls": {},
           "ext": None, "excs": {}}

    def exc(e):
        if e not in obs["excs"]:
            from concurrent.futures import CancelledError
            # besides ordinary exceptions: falsy ones, and types the future / iteration machinery gives a meaning of its own
            cls = FXE if e % 3 == 0 else CancelledError if e % 7 == 1 else StopIteration if e % 7 == 2 else XE
            # a delegate nobody maps errors of may also fail with a BaseException that is not an Exception (what a pool
            # stores for a callable that called sys.exit()); user functions never raise one (nothing catches those)
            if e >= 200 and e % 7 == 4 and not any(f["d"] == e - 200 and f["hasefn"] for f in p["futs"]):
                cls = BXE
            obs["excs"][e] = cls("e%d" % e)
        return obs["excs"][e]

    def main():
        with det.atomic():
            ext = []
            for d in range(p["next"]):
                f = Future()
                det.S.name(f, "d%d" % d)
                ext.append(f)
            obs["ext"] = ext
        envops = list(p["env"])

        def do_env(op):
            d, kind, v, run_first = op
            f = ext[d]
            try:
                if kind == "cancel":
                    f.cancel()
                else:
                    if run_first:
                        if not f.set_running_or_notify_cancel():
                            return
                    if kind == "ok":
                        det.emit("env.outcome", None, (0, v))
                        f.set_result(val(v))
                    else:
                        det.emit("env.outcome", None, (1, v))
                        f.set_exception(exc(v))
            except Exception:
                pass

        # some delegates are already done before any library future is built on them
        for op in [o for o in envops if p["pre_done"][o[0]]]:
            do_env(op)
            envops.remove(op)

        futs = {}

        def mk(i):
            spec = p["futs"][i]

            def fn(x):
                a = spec["fn"]
                obs["fn_calls"].setdefault(i, []).append(x)
                if a[0] == "ret":
                    det.user("fn", (0, a[1]))
                    return val(a[1])
                if a[0] == "raise":
                    det.user("fn", (1, a[1]))
                    raise exc(a[1])
                det.user("fn", (3, a[1]))
                return ext[a[1]]

            def efn(ex):
                a = spec["efn"]
                obs["efn_calls"].setdefault(i, []).append(ex)
                if a[0] == "ret":
                    det.user("efn", (0, a[1]))
                    return val(a[1])
                if a[0] == "raise":
                    det.user("efn", (1, a[1]))
                    raise exc(a[1])
                if a[0] == "same":
                    det.user("efn", (2, 0))
                    raise ex
                det.user("efn", (3, a[1]))
                return ext[a[1]]

            cls = FlatMapFuture if spec["kind"] == 1 else MapFuture
            j = det.S.counters["mefut"]
            det.emit("call", "new", (j, spec["kind"], 1 if spec["hasfn"] else 0, 1 if spec["hasefn"] else 0, spec["d"]))
            f = cls(ext[spec["d"]], fn if spec["hasfn"] else None, efn if spec["hasefn"] else None)
            det.emit("ret", "new", 0)
            with det.atomic():
                futs[j] = f
                obs["futs"][j] = (i, f)
            return j, f

        def addcb(j, f, c, raises):
            det.emit("call", "addcb", (j, c))

            def cb(fut):
                obs["cb_calls"].setdefault(j, []).append((c, fut._state, fut._result, fut._exception))
                det.user("cb", (j, c, 1 if raises else 0))
                if raises:
                    raise RuntimeError("callback fault")
            try:
                f.add_done_callback(cb)
            except RuntimeError:
                det.emit("ret", "addcb", 9)
                return
            det.emit("ret", "addcb", 0)

        def cancel(j, f):
            det.emit("call", "cancel", j)
            try:
                r = f.cancel()
            except BaseException as e:
                if isinstance(e, det.Abort):
                    raise
                det.emit("ret", "cancel", 9)
                obs["cancel_rets"].append((j, type(e).__name__, len(det.S.log)))
                return
            det.emit("ret", "cancel", 2 if r else 1)
            obs["cancel_rets"].append((j, r, len(det.S.log)))

        def client(k):
            def run():
                mine = []
                for i in range(len(p["futs"])):
                    if i % p["nclients"] != k:
                        continue
                    j, f = mk(i)
                    mine.append((i, j, f))
                    for c, rz in enumerate(p["futs"][i]["cbs"]):
                        addcb(j, f, c, rz)
                for (i, j, f) in mine:
                    for _ in range(p["futs"][i]["cancels"]):
                        cancel(j, f)
                    for c, rz in enumerate(p["futs"][i]["late_cbs"]):
                        addcb(j, f, 10 + c, rz)
            return run

        def env(k):
            def run():
                while envops:
                    det.switch("env")
                    if not envops:
                        break
                    op = envops.pop(0)
                    do_env(op)
            return run

        ts = [det.spawn("c%d" % k, client(k)) for k in range(p["nclients"])]
        es = [det.spawn("e%d" % k, env(k)) for k in range(p["env_threads"])]
        ws = []
        for wi, (widx, wkind) in enumerate(p.get("waiters", [])):
            def waiter(widx=widx, wkind=wkind, wi=wi):
                import concurrent.futures as cf
                det.wait_until(lambda: any(i == widx for (i, f) in obs["futs"].values()))
                f = [f for (i, f) in obs["futs"].values() if i == widx][0]
                j = [j for j, (i, f2) in obs["futs"].items() if i == widx][0]
                t0 = det.now()
                try:
                    if wkind == "result":
                        r = ("value", f.result(50))
                    elif wkind == "exception":
                        r = ("exc", f.exception(50))
                    elif wkind == "wait":
                        d, nd = cf.wait([f], timeout=50)
                        r = ("wait", f in d)
                    else:
                        r = ("as_completed", [x is f for x in cf.as_completed([f], timeout=50)])
                except BaseException as e:
                    if isinstance(e, det.Abort):
                        raise
                    r = ("raised", type(e).__name__, e)
                obs.setdefault("waits", []).append((j, wkind, r, det.now(), f._state))
            ws.append(det.spawn("w%d" % wi, waiter))
        for t in ts + es:
            t.join()
        obs["t_clients_done"] = det.now()
        for t in ws:
            t.join()
        det.emit("endscen")
        with det.atomic():
            for j, (i, f) in obs["futs"].items():
                if f._state in DONE:
                    if f.cancelled():
                        obs["outs"][j] = ("cancelled",)
                    elif f.exception() is not None:
                        obs["outs"][j] = ("err", f.exception())
                    else:
                        obs["outs"][j] = ("ok", f.result())
                else:
                    obs["outs"][j] = ("pending",)
            obs["ext_states"] = [f._state for f in ext]

    r = det.run(chooser, main)
    return r, obs


FOPS_M = {"F.cancelled": 0, "F.done": 1, "F.cancel": 2, "F.set_running_or_notify_cancel": 3, "F.set_result": 4, "F.set_exception": 6}
FOPS_E = {"F.cancelled": 0, "F.cancel": 2, "F.add_done_callback": 5}
DROP = {"thread.exit", "F.exception", "F.result", "clock"}


def encode(log):
    tids = lib.Tids()
    ev, bad = [], []
    envout = {}
    for (th, op, obj, val, ts) in log:
        if op == "endscen":
            break
        if op in DROP:
            continue
        if th == "main":
            # pre-done environment operations performed by main before the clients start
            t = tids("main")
            if op == "env.outcome":
                envout[th] = val
            elif op == "F.set_running_or_notify_cancel" and str(obj).startswith("d"):
                ev.append([19, t, int(obj[1:]), val])
            elif op in ("F.set_result", "F.set_exception") and str(obj).startswith("d"):
                o = envout.get(th, (0, 0))
                ev.append([21, t, int(obj[1:]), val, o[0], o[1]])
            elif op == "F.cancel" and str(obj).startswith("d"):
                ev.append([23, t, int(obj[1:]), val])
            continue
        t = tids(th)
        if op == "call":
            if obj == "new":
                ev.append([0, t, val[0], val[1], val[2], val[3], val[4]])
            elif obj == "cancel":
                ev.append([1, t, val])
            elif obj == "addcb":
                ev.append([2, t, val[0], val[1]])
            continue
        if op == "ret":
            ev.append([7, t, val])
            continue
        if op in ("acq", "rel") and str(obj).startswith("M"):
            ev.append([8 if op == "acq" else 9, t, int(obj[1:])])
            continue
        if op in FOPS_M and str(obj).startswith("r"):
            ev.append([10, t, FOPS_M[op], int(obj[1:]), val])
            continue
        if th.startswith("e"):
            if op == "env.outcome":
                envout[th] = val
                continue
            if op == "F.set_running_or_notify_cancel" and str(obj).startswith("d"):
                ev.append([19, t, int(obj[1:]), val])
                continue
            if op in ("F.set_result", "F.set_exception") and str(obj).startswith("d"):
                o = envout.get(th, (0, 0))
                ev.append([21, t, int(obj[1:]), val, o[0], o[1]])
                continue
            if op == "F.cancel" and str(obj).startswith("d") and not inside_lib(ev, t):
                ev.append([23, t, int(obj[1:]), val])
                continue
        if op in FOPS_E and str(obj).startswith("d"):
            ev.append([11, t, FOPS_E[op], int(obj[1:]), val])
            continue
        if op == "user:fn":
            ev.append([12, t, val[0], val[1]])
            continue
        if op == "user:efn":
            ev.append([13, t, val[0], val[1]])
            continue
        if op == "user:cb":
            ev.append([14, t, val[0], val[1], val[2]])
            continue
        if op == "thread.died":
            ev.append([22, t])
            continue
        bad.append((th, op, obj, val))
    return ev, bad


def inside_lib(ev, t):
    return False
