"""C11 (chain): whole executor stacks projected onto their SHUTDOWN CHAIN, replayed on coq/Model/Chain.v.

A stack is base (layer 0: sync / real thread pool / a manual environment executor) plus 1-4 library
layers.  Every layer's submit()/shutdown() is wrapped (observation only: det.emit does not yield) and
every ShutdownHelper lock is named G<k> and proxied so that re-entrant acquisitions are logged too.
The encoder keeps: call/return of each layer's shutdown and submit, gate operations, worker-thread
exits.  Everything else (other locks, futures, events, clocks) is dropped: the model is a PROJECTION."""
import random
import detsched as det
import lib

KINDS = ["map", "flat_map", "poll", "retry", "throttle", "timeout", "cancel_on_shutdown"]
KCODE = {"map": 0, "flat_map": 0, "poll": 1, "retry": 2, "throttle": 3, "timeout": 4, "cancel_on_shutdown": 5}
WORKER = {"poll": "PollExecutor-", "retry": "RetryExecutor-", "throttle": "ThrottleExecutor-", "timeout": "TimeoutExecutor-"}
MSG = "cannot schedule new futures after shutdown"
KWS = [{}, {"cancel_futures": True}, {"cancel_futures": False}]
BIG = 10 ** 8      # virtual time beyond which a join(MAX_TIMEOUT) must have expired


def gen_op(rng, n, p_shut, base):
    x = rng.random()
    if x < p_shut:
        k = n if rng.random() < 0.6 else rng.randint(0, n)
        return ["shut", k, rng.random() < 0.65, rng.randrange(3)]
    if x < p_shut + 0.12:
        return ["sleep", rng.choice([1, 2, 3, 6])]
    k = n if rng.random() < 0.7 else rng.randint(0, n)
    w = rng.choice(["quick", "quick", "fail", "block", "nest", "nest", "nshut"])
    if base == "sync" and rng.random() < 0.35:
        w = rng.choice(["nest", "nest", "nshut"])      # only a synchronous base runs the callable inside the gates
    return ["sub", k, w, None]


def nest_max(p, k):
    """highest layer a callable submitted at layer k may call back into without inverting the gate
    order by itself: with a synchronous base the callable runs inline, in the thread of the lowest
    hand-off layer (retry/throttle) at or below k -- or in the client's -- which holds the gates below
    that point.  (A callable that calls back ABOVE the gates its thread holds can deadlock against a
    client coming down; that is the caller's inversion, see c11_chain_lock_order_refuted.)"""
    if p["base"] != "sync":
        return len(p["layers"])
    m = [i + 1 for i, kind in enumerate(p["layers"]) if kind in ("retry", "throttle") and i + 1 <= k]
    return (min(m) - 1) if m else k


def gen(rng):
    depth = rng.randint(1, 4)
    layers = [rng.choice(KINDS) for _ in range(depth)]
    n = depth
    base = rng.choice(["sync", "sync", "pool", "manual"])
    nc = rng.randint(2, 4)
    clients = []
    for c in range(nc):
        p_shut = rng.choice([0.15, 0.35, 0.6])
        clients.append([gen_op(rng, n, p_shut, base) for _ in range(rng.randint(1, 4))])
    if not any(op[0] == "shut" for ops in clients for op in ops):
        clients[0].append(["shut", n, True, rng.randrange(3)])
    p = {"base": base, "layers": layers}
    for ops in clients:
        for op in ops:
            if op[0] == "sub":
                op[3] = rng.randint(0, nest_max(p, op[1]))
    return {"base": p["base"], "layers": layers, "clients": clients,
            "env": sorted(rng.choice([1, 2, 4, 7, 11]) for _ in range(rng.randint(0, 3))),
            "poll_resolves": rng.random() < 0.6, "throttle": rng.choice([1, 2, None]),
            "final_shutdown": rng.random() < 0.8}


class ManualBase(lib.Manual):
    """environment base executor: refuses after shutdown, like every real executor"""

    def shutdown(self, wait=True, **kw):
        det.switch("deleg.shutdown")
        self.refuse = True
        self.shut.append((wait, kw))


class GateProxy(object):
    """stands in for ShutdownHelper._lock: same lock, but re-entrant operations are logged as well"""

    def __init__(self, lock, role):
        self.lock = lock
        self.role = role

    def __enter__(self):
        owned = self.lock._is_owned()
        self.lock.acquire()
        if owned:
            det.emit("reacq", self.role)
        return True

    def __exit__(self, *a):
        if self.lock.count > 1:
            det.emit("rerel", self.role)
        self.lock.release()

    acquire = __enter__

    def release(self):
        self.__exit__()


def build(p, obs, gate):
    """the stack, instrumented; returns [(kind, executor)] bottom-up"""
    from more_executors import Executors
    from more_executors.futures import f_return
    if p["base"] == "sync":
        ex = Executors.sync()
    elif p["base"] == "pool":
        ex = Executors.thread_pool(max_workers=2)
    else:
        ex = ManualBase()
    objs = [("base", ex)]
    for i, k in enumerate(p["layers"]):
        nm = "L%d" % (i + 1)
        if k == "map":
            ex = Executors.with_map(ex, lambda v: v)
        elif k == "flat_map":
            ex = Executors.with_flat_map(ex, lambda v: f_return(v))
        elif k == "poll":
            def poll_fn(ds):
                if p["poll_resolves"] or gate["open"]:
                    for d in ds:
                        d.yield_result(d.result)
            ex = Executors.with_poll(ex, poll_fn, default_interval=2, name=nm)
        elif k == "retry":
            ex = Executors.with_retry(ex, max_attempts=3, sleep=2, name=nm)
        elif k == "throttle":
            ex = Executors.with_throttle(ex, p["throttle"], name=nm)
        elif k == "timeout":
            ex = Executors.with_timeout(ex, 10 ** 6, name=nm)
        else:
            ex = Executors.with_cancel_on_shutdown(ex)
        objs.append((k, ex))
    return objs


def instrument(objs):
    """wrap submit/shutdown of every layer; name + proxy the gates (inside det.atomic())"""
    for idx, (k, o) in enumerate(objs):
        def wrap_sd(o=o, idx=idx, orig=o.shutdown):
            def sd(wait=True, **kw):
                det.emit("sd.call", idx, (bool(wait), tuple(sorted(kw.items()))))
                try:
                    r = orig(wait, **kw)
                except BaseException as e:
                    if not isinstance(e, det.Abort):
                        det.emit("sd.exc", idx, type(e).__name__)
                    raise
                det.emit("sd.ret", idx)
                return r
            return sd

        def wrap_sub(o=o, idx=idx, orig=o.submit):
            def sub(*a, **kw):
                det.emit("sub.call", idx)
                try:
                    f = orig(*a, **kw)
                except RuntimeError as e:
                    det.emit("sub.ret", idx, 0 if str(e) == MSG else 2)
                    raise
                except det.Abort:
                    raise
                except BaseException as e:
                    det.emit("sub.ret", idx, 2)
                    raise
                det.emit("sub.ret", idx, 1)
                return f
            return sub
        o.shutdown = wrap_sd()
        o.submit = wrap_sub()
        h = getattr(o, "_shutdown", None)
        if idx >= 1 and h is not None and hasattr(h, "_lock"):
            det.S.name(h._lock, "G%d" % idx)
            h._lock = GateProxy(h._lock, "G%d" % idx)


def execute(p, chooser):
    obs = {"params": p, "subs": [], "shuts": [], "errors": []}
    n = len(p["layers"])

    def main():
        det.emit("case", None, repr(p))
        gate = {"open": False}
        with det.atomic():
            objs = build(p, obs, gate)
            instrument(objs)
        obs["workers"] = {}
        for t in det.S.threads.values():
            for idx, (k, o) in enumerate(objs):
                if k in WORKER and t.name == WORKER[k] + "L%d" % idx:
                    obs["workers"][idx] = t
        base = objs[0][1]

        def work(kind, j, who):
            def fn():
                if kind == "fail":
                    raise KeyError("w")
                if kind == "block" and p["base"] == "pool":
                    det.wait_until(lambda: gate["open"])
                if kind == "nest":
                    try:
                        objs[j][1].submit(lambda: 7)
                    except RuntimeError as e:
                        if str(e) != MSG:
                            obs["errors"].append(("nest", who, str(e)))
                if kind == "nshut":
                    objs[j][1].shutdown(False)
                return 1
            return fn

        def client(c, ops):
            def run():
                for i, op in enumerate(ops):
                    if op[0] == "sleep":
                        det.sleep(op[1])
                    elif op[0] == "sub":
                        t0 = len(det.S.log)
                        try:
                            objs[op[1]][1].submit(work(op[2], op[3], (c, i)))
                            res = "ok"
                        except RuntimeError as e:
                            res = "raise" if str(e) == MSG else ("RuntimeError", str(e))
                        except Exception as e:
                            res = (type(e).__name__, str(e))
                        obs["subs"].append({"c": c, "i": i, "k": op[1], "start": t0, "end": len(det.S.log), "res": res})
                    else:
                        t0 = len(det.S.log)
                        objs[op[1]][1].shutdown(op[2], **KWS[op[3]])
                        with det.atomic():
                            alive = [idx for idx, t in obs["workers"].items() if not t.done]
                            flags = [bool(o._shutdown.is_shutdown) if idx >= 1 else None for idx, (k, o) in enumerate(objs)]
                        obs["shuts"].append({"c": c, "i": i, "k": op[1], "wait": op[2], "kw": op[3], "start": t0,
                                             "end": len(det.S.log), "alive": alive, "flags": flags, "now": det.now()})
            return run

        def env():
            for at in p["env"] + [20, 40]:
                if det.now() < at:
                    det.sleep(at - det.now())
                if at == 20:
                    gate["open"] = True
                    for (k, o) in objs:
                        if k == "poll":
                            o.notify()
                if p["base"] == "manual":
                    for i in range(len(base.fs)):
                        if base.fs[i][0]._state == "PENDING":
                            base.run(i)

        ts = [det.spawn("c%d" % c, client(c, ops)) for c, ops in enumerate(p["clients"])]
        te = det.spawn("env", env)
        for t in ts:
            t.join()
        te.join()
        if p["final_shutdown"]:
            objs[n][1].shutdown(True)
            with det.atomic():
                obs["final_alive"] = [idx for idx, t in obs["workers"].items() if not t.done]

    r = det.run(chooser, main)
    return r, obs


DROPPED = {"case", "clock", "deleg.submit", "deleg.submit.refused", "ev.clear", "ev.set", "ev.wait", "ev.woke",
           "tryacq", "thread.died"}


def encode(log):
    """the projection: first line = layer kinds; then
    sub.call [0,t,k]  sub.ret [1,t,k,ok]  acq G [2,t,k]  reacq [3,t,k]  rel [4,t,k]  rerel [5,t,k]
    sd.call [6,t,k,wait,kw]  sd.ret [7,t,k]  exit of layer k's worker thread [8,t,k]"""
    import ast
    tids = lib.Tids()
    ev, bad = [], []
    layers = None
    workers = {}
    for (th, op, obj, val, ts) in log:
        if op == "case":
            layers = ast.literal_eval(val)["layers"]
            ev.append([KCODE[k] for k in layers])
            workers = dict((WORKER[k] + "L%d" % (i + 1), i + 1) for i, k in enumerate(layers) if k in WORKER)
            continue
        if op in ("acq", "rel", "reacq", "rerel"):
            if isinstance(obj, str) and obj[0] == "G" and obj[1:].isdigit():
                ev.append([{"acq": 2, "reacq": 3, "rel": 4, "rerel": 5}[op], tids(th), int(obj[1:])])
        elif op == "sub.call":
            ev.append([0, tids(th), obj])
        elif op == "sub.ret":
            if val in (0, 1):
                ev.append([1, tids(th), obj, val])
            else:
                bad.append((th, op, obj, val))
        elif op == "sd.call":
            kw = dict(val[1])
            if kw not in KWS:
                bad.append((th, op, obj, val))
            else:
                ev.append([6, tids(th), obj, 1 if val[0] else 0, KWS.index(kw)])
        elif op == "sd.ret":
            ev.append([7, tids(th), obj])
        elif op == "thread.exit":
            if th in workers:
                ev.append([8, tids(th), workers[th]])
        elif op in DROPPED or op.startswith("F."):
            continue
        else:
            bad.append((th, op, obj, val))
    if layers is None:
        bad.append(("-", "no-case", None, None))
    return ev, bad


def frames(log):
    """call frames of the instrumented submit/shutdown methods, per thread (positions = log indices)"""
    out = []
    stack = {}
    exits = {}
    for pos, (th, op, obj, val, ts) in enumerate(log):
        if op in ("sub.call", "sd.call"):
            st = stack.setdefault(th, [])
            f = {"th": th, "kind": op[:-5], "k": obj, "start": pos, "t0": ts, "end": None, "t1": None, "args": val,
                 "ok": None, "parent": st[-1] if st else None, "children": [], "id": len(out)}
            if st:
                out[st[-1]]["children"].append(len(out))
            out.append(f)
            st.append(f["id"])
        elif op in ("sub.ret", "sd.ret", "sd.exc"):
            st = stack.get(th, [])
            if not st or out[st[-1]]["k"] != obj:
                out.append({"th": th, "kind": "orphan", "k": obj, "start": pos, "end": pos, "children": [], "parent": None,
                            "id": len(out), "args": None, "ok": None, "t0": ts, "t1": ts})
                continue
            f = out[st.pop()]
            f["end"], f["t1"] = pos, ts
            f["ok"] = val if op == "sub.ret" else (op == "sd.ret")
        elif op == "thread.exit":
            exits.setdefault(th, pos)
    return out, exits


def propagated(fs, f):
    """is the shutdown frame f the call layer f.k+1 made to its delegate?"""
    par = fs[f["parent"]] if f["parent"] is not None else None
    return par is not None and par["kind"] == "sd" and par["k"] == f["k"] + 1
