"""C18 (retry, cancels racing with the submit thread): no library-internal exception escapes into the submit thread
or out of cancel(), and the executor keeps serving.  Scenario family and lockstep of C06 (cancel() calls at random
virtual delays / after k delegate submissions) on Model/Retry.v; only the fault-related verdicts count here."""
import p_c06r as base

PROP = "C18"
MACHINE = base.MACHINE
N_QUICK = 1000
N_THOROUGH = 40000
KEEP = ("retry:deadlock", "retry:harness-exc", "retry:thread-died:worker", "retry:thread-died:other", "retry:worker-dead",
        "retry:pending", "retry:cancel-raised")

gen = base.gen
execute = base.execute
encode = base.encode


def monitor(r, obs):
    return [v for v in base.monitor(r, obs) if v["pattern"] in KEEP]


nontrivial = base.nontrivial
describe = base.describe
