"""C02 (combinator outputs: f_or / f_and / f_zip): waiters in result() / wait() / as_completed() are
released by every kind of completion, including cancellation through an input or by the user."""
import random
import detsched as det
import lib
import comb_common as cc

det.TIMER_EPS = 0.001

PROP = "C02"
MACHINE = "comb"
N_QUICK = 1500
N_THOROUGH = 60000


def gen(rng):
    p = cc.gen(rng)
    p["waiters"] = [rng.choice(["result", "wait", "as_completed"]) for _ in range(rng.randint(1, 3))]
    return p


execute = cc.execute
encode = cc.encode


def monitor(r, obs):
    out = []
    if r.deadlock or r.hang:
        return [{"what": "deadlock %s" % (r.deadlock,), "detail": str(obs["params"]), "pattern": "proto:deadlock"}]
    if r.exc is not None:
        return [{"what": "harness-exception", "detail": getattr(r, "tb", repr(r.exc))[-600:], "pattern": "proto:harness-exc"}]
    final = obs.get("outcome")
    if final is None or final[0] == "pending":
        return out
    if obs.get("out_state") == "CANCELLED":
        out.append({"what": "cancelled output was never notified (state CANCELLED): wait()/as_completed() callers are not released",
                    "detail": str(obs["params"]), "pattern": "comb:cancelled-not-notified"})
    t_done = None
    for (th, op, obj, val, ts) in r.log:
        if str(obj).startswith("f") and op in ("F.set_result", "F.set_exception", "F.cancel") and val == 0:
            t_done = ts
            break
    for (kind, rr, tret) in obs.get("waits", []):
        dt = tret - (t_done if t_done is not None else 0)
        if dt > 0.01:
            out.append({"what": "%s() on an output that became %s was only released after %s (its timeout)" % (kind, final[0], dt),
                        "detail": str(obs["params"]), "pattern": "proto:waiter-not-released:" + kind})
        elif kind == "wait" and rr != ("wait", True) or kind == "as_completed" and rr != ("as_completed", [True]):
            out.append({"what": "%s() returned %r for an output that ended %s" % (kind, rr, final[0]), "detail": str(obs["params"]),
                        "pattern": "proto:waiter-wrong:" + kind})
    return out


def nontrivial(r, obs, events):
    return r.preempts > 0


def describe(p):
    return ["kind=%s" % ("or", "and", "zip")[p["kind"]], "waiters=%d" % len(p["waiters"])]
