"""C12 (poll): a done poll future leaves no descriptor behind in PollExecutor._poll_descriptors (the executor keeps no reference to a finished future, its delegate result or its descriptor); scenario family and lockstep of C08 on Model/Poll.v (Props/C12_keep_poll.v states the retention theorems on that machine).
Only the verdicts of that family's monitor that belong to this property count here; every history is still
replayed on the component machine."""
import p_c08 as base

PROP = "C12"
MACHINE = base.MACHINE
N_QUICK = 900
N_THOROUGH = 40000
KEEP = ("poll:stale-descriptor", "poll:descriptor-leak", "poll:deadlock", "poll:thread-died:poller", "poll:thread-died:other", "poll:harness-exc")
if hasattr(base, "setup"):
    setup = base.setup
if hasattr(base, "expected_verdict"):
    expected_verdict = base.expected_verdict

gen = base.gen
execute = base.execute
encode = base.encode


def monitor(r, obs):
    return [v for v in base.monitor(r, obs) if v["pattern"] in KEEP]


nontrivial = base.nontrivial
describe = base.describe
