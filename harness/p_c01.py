"""C01: whole-stack differential -- random with_* stacks over sync / the real ThreadPoolExecutor,
several concurrent submitters, against Stack.seq_eval evaluated by the extracted Coq model."""
import random
import detsched as det
import lib

PROP = "C01"
MACHINE = None
NEEDS_POOL = True
N_QUICK = 1000
N_THOROUGH = 30000
KINDS = ["map", "flat_map", "poll", "retry", "throttle", "timeout", "cancel_on_shutdown"]


class CE(Exception):
    def __bool__(self):        # some exception objects are falsy (empty error aggregates): still exceptions
        return self.args[0] % 3 != 0


def gen(rng, maxdepth=6):
    depth = rng.randint(1, maxdepth)
    layers = []
    for i in range(depth):
        k = rng.choice(KINDS)
        layers.append({"kind": k, "raises": (k in ("map", "flat_map") and rng.random() < 0.12),
                       # with_map(fn, error_fn): the error function swallows a failure and returns None
                       "efn": (k == "map" and rng.random() < 0.25),
                       "max_attempts": rng.randint(1, 3), "count": rng.randint(1, 2),
                       # flat_map: the kind of future fn returns (plain / f_proxy / f_nocancel around it); a failing layer
                       # either raises or returns an already-failed future of that kind
                       "how": rng.choice(["plain", "plain", "proxy", "nocancel"]), "fail_by_future": rng.random() < 0.5,
                       # poll function: the call indices at which it raises (after it has been shown its descriptors)
                       "poll_raise": (rng.choice([[0], [1], [0, 2], [0, 1]]) if (k == "poll" and rng.random() < 0.3) else [])})
    nsub = rng.randint(1, 4)
    subs = []
    for s in range(nsub):
        script = [rng.choice(["ok", "ok", "err"]) for _ in range(rng.randint(1, 4))] + ["ok"]
        subs.append({"script": script, "v": s + 4 * rng.randrange(2)})      # distinct per submission
    return {"base": rng.choice(["sync", "pool"]), "workers": rng.randint(1, 3), "layers": layers, "subs": subs,
            "clients": rng.randint(1, 3)}


def wire(p, s):
    """layers outermost first, script codes: 2*v (ok v) / 2*e+1 (err e)"""
    lay = []
    for i in reversed(range(len(p["layers"]))):
        l = p["layers"][i]
        k = l["kind"]
        if k == "map" and l.get("efn") and not l["raises"]:
            lay += [5, i, 0]
        elif k == "map":
            lay += [0, i, 1 if l["raises"] else 0]
        elif k == "flat_map":
            lay += [1, i, 1 if l["raises"] else 0]
        elif k == "poll":
            lay += [2, i, 0]
        elif k == "retry":
            lay += [3, l["max_attempts"], 0]
        else:
            lay += [4, 0, 0]
    scr = []
    for k, a in enumerate(p["subs"][s]["script"]):
        scr.append(2 * p["subs"][s]["v"] if a == "ok" else 2 * (1000 + s * 16 + k) + 1)
    return [lay, scr]


def execute(p, chooser):
    from more_executors import Executors
    from more_executors.futures import f_return, f_return_error, f_proxy, f_nocancel
    obs = {"params": p, "res": {}, "calls": {}, "raised": {}, "fncalls": {}, "pollraise": []}

    def main():
        det.emit("case", None, repr(p))
        with det.atomic():
            ex = Executors.sync() if p["base"] == "sync" else Executors.thread_pool(max_workers=p["workers"])
            base = ex
            for i, l in enumerate(p["layers"]):
                k = l["kind"]

                def mkfn(i=i, l=l, flat=(k == "flat_map")):
                    def fn(v):
                        s = v >> 60 if False else None
                        obs["fncalls"].setdefault(i, []).append(v)
                        def dress(f):
                            how = l.get("how", "plain")
                            return f_proxy(f) if how == "proxy" else f_nocancel(f) if how == "nocancel" else f
                        if l["raises"]:
                            e = CE(2000 + i)
                            obs["raised"].setdefault("L%d" % i, []).append(e)
                            if flat and l.get("fail_by_future"):
                                return dress(f_return_error(e))
                            raise e
                        r = (-1 if v is None else v) * 16 + i       # None (a swallowed failure) counts as -1, as in Stack.v
                        return dress(f_return(r)) if flat else r
                    return fn
                if k == "map" and l.get("efn") and not l["raises"]:
                    ex = ex.with_map(mkfn(), error_fn=lambda e, i=i: obs["fncalls"].setdefault(i, []).append(e))
                elif k == "map":
                    ex = ex.with_map(mkfn())
                elif k == "flat_map":
                    ex = ex.with_flat_map(mkfn())
                elif k == "poll":
                    def poll_fn(ds, i=i, l=l, st={}):
                        c = st.setdefault((id(obs), i), [0])
                        kcall = c[0]
                        c[0] += 1
                        if kcall in l.get("poll_raise", []) and ds:
                            shown = [d.result for d in ds]
                            det.switch("poll")          # other threads may register further futures meanwhile
                            e = CE(3000 + i * 16 + kcall)
                            obs["pollraise"].append((i, kcall, e, shown))
                            raise e
                        for d in ds:
                            d.yield_result((-1 if d.result is None else d.result) * 16 + i)
                        # whatever a poll function returns besides an int / float delay means "default interval": None, a string,
                        # the list of what it just completed ...
                        return [None, None, 1, 0.5, "soon", [len(ds)], (1,), True][(i + kcall) % 8] if ds else None
                    ex = ex.with_poll(poll_fn, default_interval=1)
                elif k == "retry":
                    ex = ex.with_retry(max_attempts=l["max_attempts"], sleep=1)
                elif k == "throttle":
                    ex = ex.with_throttle(l["count"])
                elif k == "timeout":
                    ex = ex.with_timeout(10 ** 6)
                else:
                    ex = ex.with_cancel_on_shutdown()
        futs = {}

        def mkcallable(s):
            st = {"k": 0}

            def fn(*a):
                k = st["k"]
                st["k"] += 1
                obs["calls"].setdefault(s, []).append(a)
                if p["subs"][s]["script"][min(k, len(p["subs"][s]["script"]) - 1)] == "err":
                    e = CE(1000 + s * 16 + k)
                    obs["raised"].setdefault(s, []).append(e)
                    raise e
                return p["subs"][s]["v"]
            return fn

        def client(c):
            def run():
                for s in range(len(p["subs"])):
                    if s % p["clients"] == c:
                        futs[s] = ex.submit(mkcallable(s), s, "arg")
            return run
        ts = [det.spawn("c%d" % c, client(c)) for c in range(p["clients"])]
        for t in ts:
            t.join()
        for s, f in sorted(futs.items()):
            try:
                # exception() first: the stdlib's own result() tests the stored exception for truthiness, so a falsy
                # exception object would read as "result None" there
                e = f.exception(10 ** 7)
                obs["res"][s] = ("err", e) if e is not None else ("ok", f.result(0))
            except BaseException as e:
                if isinstance(e, det.Abort):
                    raise
                obs["res"][s] = ("err", e)
        ex.shutdown(wait=True)

    r = det.run(chooser, main)
    return r, obs


def encode(log):
    import zlib
    for (th, op, obj, val, ts) in log:
        if op == "case":
            return [[zlib.crc32(val.encode()) & 0xffffff, len(log) % 997]], []
    return [[len(log)]], []


_runner = {}


def monitor(r, obs):
    p = obs["params"]
    if r.deadlock or r.hang:
        return [{"what": "deadlock", "detail": str(r.deadlock), "pattern": "stack:deadlock"}]
    if r.exc is not None:
        return [{"what": "harness-exception", "detail": getattr(r, "tb", repr(r.exc))[-600:], "pattern": "stack:harness-exc"}]
    out = []
    for (nm, dn, e) in r.threads:
        if e is not None:
            out.append({"what": "thread %s died with %s" % (nm, e), "detail": nm, "pattern": "stack:thread-died"})
    if "rp" not in _runner:
        _runner["rp"] = lib.RunnerProc()
    rp = _runner["rp"]
    multi_retry = sum(1 for l in p["layers"] if l["kind"] == "retry")
    # a raising poll call fails the futures it was shown - and only those.  Which submissions were shown to a
    # failing call: the descriptor value at layer i is the callable's (distinct) value pushed through the
    # value-transforming layers below i, each of which maps v to 16 v + index
    affected = set()
    pexc = {}
    for (i, kcall, e, shown) in obs.get("pollraise", []):
        below = sum(1 for l in p["layers"][:i] if l["kind"] in ("map", "flat_map", "poll"))
        if any((x is None) or (isinstance(x, int) and x < 0) for x in shown):
            # a swallowed failure below (error_fn returned None): the descriptor no longer identifies its submission
            hit = set(range(len(p["subs"])))
        else:
            vs = set(x >> (4 * below) for x in shown if isinstance(x, int))
            hit = set(s for s in range(len(p["subs"])) if p["subs"][s]["v"] in vs)
        affected |= hit
        pexc[id(e)] = (i, kcall, hit)
    for s in range(len(p["subs"])):
        got = obs["res"].get(s)
        if got is not None and got[0] == "err" and id(got[1]) in pexc and s not in pexc[id(got[1])][2]:
            i, kcall, hit = pexc[id(got[1])]
            out.append({"what": "submission %d failed with the exception of poll call %d of layer %d, which was shown only submissions %s"
                                % (s, kcall, i, sorted(hit)), "detail": s, "pattern": "stack:foreign-poll-failure"})
            continue
        if s in affected:
            # shown to a failing poll call: it carries that failure (or what a retry layer above made of it)
            calls = obs["calls"].get(s, [])
            if any(a != (s, "arg") for a in calls):
                out.append({"what": "callable of submission %d invoked with %r" % (s, calls), "detail": s, "pattern": "stack:arguments"})
            continue
        kind, val, inv, fnc = rp.ask("stack", wire(p, s))
        got = obs["res"].get(s)
        calls = obs["calls"].get(s, [])
        if any(a != (s, "arg") for a in calls):
            out.append({"what": "callable of submission %d invoked with %r" % (s, calls), "detail": s, "pattern": "stack:arguments"})
        if len(calls) != inv:
            out.append({"what": "callable of submission %d invoked %d times, sequential evaluation says %d" % (s, len(calls), inv),
                        "detail": s, "pattern": "stack:invocations"})
        if got is None:
            out.append({"what": "no future for submission %d" % s, "detail": s, "pattern": "stack:missing"})
            continue
        if kind == 0:
            if got != ("ok", val) and not (val == -1 and got == ("ok", None)):
                out.append({"what": "submission %d: %r, sequential evaluation gives value %d" % (s, got, val), "detail": s, "pattern": "stack:outcome"})
        else:
            ok = got[0] == "err" and isinstance(got[1], CE) and got[1].args[0] == val
            if ok:
                pool = obs["raised"].get(s, []) if val < 2000 else obs["raised"].get("L%d" % (val - 2000), [])
                ok = any(got[1] is e for e in pool)
            if not ok:
                out.append({"what": "submission %d: %r, sequential evaluation gives exception %d (identity required)" % (s, got, val),
                            "detail": s, "pattern": "stack:outcome"})
    return out


def nontrivial(r, obs, events):
    p = obs["params"]
    return len(p["subs"]) >= 2 and len(p["layers"]) >= 2 and r.preempts > 0


def describe(p):
    return ["base=" + p["base"], "depth=%d" % len(p["layers"]), "subs=%d" % len(p["subs"]), "clients=%d" % p["clients"]] + \
           ["has_" + k for k in sorted(set(l["kind"] for l in p["layers"]))]
