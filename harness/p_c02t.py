"""C02 (ThrottleFuture): cancel() answers a bool and never raises, outcome set once, under racing submits / hand-overs / cancels; scenario family and lockstep of C07 on Model/Throttle.v.
Only the protocol verdicts of that family's monitor count here; every history is still replayed on the component machine."""
import p_c07 as base
LINE_PREEMPT = False     # the Throttle monitor reconstructs queue / counter state from the ADJACENCY of log entries of one thread:
#                          runs with line-level preemption (drive.py) would be misread by it

PROP = "C02"
MACHINE = base.MACHINE
N_QUICK = 800
N_THOROUGH = 30000
KEEP = ("throttle:deadlock", "throttle:thread-died:handover", "throttle:thread-died:other", "throttle:harness-exc", "throttle:cancel-ghost")
if hasattr(base, "setup"):
    setup = base.setup
if hasattr(base, "expected_verdict"):
    expected_verdict = base.expected_verdict

gen = base.gen
execute = base.execute
encode = base.encode


def monitor(r, obs):
    return [v for v in base.monitor(r, obs) if v["pattern"].startswith(KEEP)]


nontrivial = base.nontrivial
describe = base.describe
