"""C03 (throttle): a finished delegate future wakes the hand-over thread (no idle capacity waiting for the 2 s / 30 s re-check); scenario family and lockstep of C07 on Model/Throttle.v.
Only the lost-future / lost-wake-up verdicts of that family's monitor count here; every history is still
replayed on the component machine."""
import p_c07 as base
LINE_PREEMPT = False     # the Throttle monitor reconstructs queue / counter state from the ADJACENCY of log entries of one thread:
#                          runs with line-level preemption (drive.py) would be misread by it

PROP = "C03"
MACHINE = base.MACHINE
N_QUICK = 1000
N_THOROUGH = 40000
KEEP = ("throttle:idle-capacity", "throttle:deadlock", "throttle:thread-died:handover", "throttle:thread-died:other", "throttle:harness-exc")
if hasattr(base, "setup"):
    setup = base.setup
if hasattr(base, "expected_verdict"):
    expected_verdict = base.expected_verdict

gen = base.gen
execute = base.execute
encode = base.encode


def monitor(r, obs):
    return [v for v in base.monitor(r, obs) if v["pattern"] in KEEP]


nontrivial = base.nontrivial
describe = base.describe
