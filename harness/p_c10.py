"""C10: CancelOnShutdownExecutor — lockstep correspondence with coq/Model/Cos.v + monitor."""
import random, sys
import detsched as det
import lib
from lib import Manual

PROP = "C10"
MACHINE = "cos"


def gen(rng):
    nsub = rng.randint(1, 4)
    p = {
        "subs": [rng.randint(1, 3) for _ in range(nsub)],
        "shut_calls": rng.choice([1, 1, 2]),
        "second_shutter": rng.random() < 0.2,
        "sync": [rng.random() < 0.25 for _ in range(12)],
        "env_ops": rng.randint(0, 8),
        "env_seed": rng.randrange(1 << 30),
        "late_submit": rng.random() < 0.3,
        # arguments of the user's shutdown() call: the sweep must happen whatever they are
        "shut_kwargs": rng.choice([{}, {}, {"cancel_futures": True}, {"cancel_futures": False}, {"wait": False}]),
    }
    return p


def execute(p, chooser):
    from more_executors._impl.cancel_on_shutdown import CancelOnShutdownExecutor
    obs = {"rets": [], "snap": None}

    def main():
        m = Manual(sync_script=p["sync"])
        ex = CancelOnShutdownExecutor(m)
        det.S.name(ex._lock, "X")
        det.S.name(ex._shutdown._lock, "G")
        erng = random.Random(p["env_seed"])

        def do_submit(tag):
            det.emit("call", "submit")
            try:
                f = ex.submit(lambda: tag)
            except RuntimeError as e:
                det.emit("ret", "submit", 1)
                obs["rets"].append(("raised", str(e)))
                return
            det.emit("ret", "submit", 0)
            obs["rets"].append(("ret", det.S.role(f)))

        def do_shutdown(primary):
            det.emit("call", "shutdown")
            pos0 = len(det.S.log)
            me = det.me().name
            ex.shutdown(**p.get("shut_kwargs", {}))
            det.emit("ret", "shutdown", 0)
            # only the call that really performed the shutdown is the one the property speaks about
            primary = any(th == me and op == "deleg.shutdown" for (th, op, _, _, _) in det.S.log[pos0:])
            if primary and obs["snap"] is None:
                with det.atomic():
                    obs["snap"] = {"states": [f._state for (f, _, _, _) in m.fs],
                                   "log_pos": len(det.S.log), "dshut": len(m.shut)}

        def sub(i, k):
            def f():
                for j in range(k):
                    do_submit((i, j))
            return f

        def shutter():
            for j in range(p["shut_calls"]):
                do_shutdown(True)
            if p["late_submit"]:
                do_submit("late")

        def shutter2():
            do_shutdown(True)

        def env():
            for _ in range(p["env_ops"]):
                det.switch("env")
                cand = [i for i, (f, _, _, _) in enumerate(m.fs) if f._state in ("PENDING", "RUNNING")]
                if not cand:
                    continue
                i = erng.choice(cand)
                f = m.fs[i][0]
                try:
                    if f._state == "PENDING" and erng.random() < 0.6:
                        m.start(i)
                    else:
                        m.finish(i)
                except Exception:
                    pass   # lost a race with the sweep's cancel(): stdlib raises in the env thread

        ts = [det.spawn("c%d" % i, sub(i, k)) for i, k in enumerate(p["subs"])]
        ts.append(det.spawn("sh", shutter))
        if p["second_shutter"]:
            ts.append(det.spawn("sh2", shutter2))
        ts.append(det.spawn("env", env))
        for t in ts:
            t.join()
        obs["final_states"] = [f._state for (f, _, _, _) in m.fs]
        obs["dshut"] = list(m.shut)

    r = det.run(chooser, main)
    return r, obs


IGNORE_OPS = {"thread.exit", "F.done", "F.cancelled", "F.running", "clock"}


def encode(log):
    """impl log -> wire events for Cos.accept; returns (events, problems)"""
    tids = lib.Tids()
    ev = []
    bad = []
    lockcode = {"G": 0, "X": 1}
    for (th, op, obj, val, ts) in log:
        if th == "main":
            continue
        if th == "env":
            if op == "F.set_running_or_notify_cancel" and obj.startswith("d"):
                ev.append([9, int(obj[1:]), val])
            elif op in ("F.set_result", "F.set_exception") and obj.startswith("d"):
                ev.append([10, int(obj[1:]), val])
            elif op in IGNORE_OPS:
                pass
            else:
                bad.append((th, op, obj, val))
            continue
        t = tids(th)
        if op == "call":
            ev.append([0 if obj == "submit" else 1, t])
        elif op == "ret":
            ev.append([8, t, val])
        elif op in ("acq", "rel") and obj in lockcode:
            ev.append([2 if op == "acq" else 3, t, lockcode[obj]])
        elif op == "deleg.submit":
            ev.append([4, t, val[0], val[1]])
        elif op == "F.add_done_callback" and obj.startswith("d"):
            ev.append([5, t, int(obj[1:]), val])
        elif op == "F.cancel" and obj.startswith("d"):
            ev.append([6, t, int(obj[1:]), val])
        elif op == "deleg.shutdown":
            ev.append([7, t])
        elif op in IGNORE_OPS:
            pass
        else:
            bad.append((th, op, obj, val))
    return ev, bad


def monitor(r, obs):
    """The property itself, evaluated on the implementation's history (search oracle only)."""
    out = []
    if r.deadlock or r.hang:
        out.append({"what": "deadlock", "detail": r.deadlock or "hang",
                    "pattern": "cos:deadlock"})
        return out
    if r.exc is not None:
        out.append({"what": "harness-exception", "detail": repr(r.exc), "pattern": "cos:exc"})
        return out
    if any(d for (_, d, e) in [(n, dn, e) for (n, dn, e) in r.threads] if False):
        pass
    for (n, dn, e) in r.threads:
        if e is not None:
            out.append({"what": "thread died with " + e, "detail": n, "pattern": "cos:thread-died"})
    snap = obs.get("snap")
    cancels = {}
    subs_after = 0
    for i, (th, op, obj, val, ts) in enumerate(r.log):
        if op == "F.cancel" and obj and obj.startswith("d") and not th.startswith("e"):
            # every cancel() that reaches a delegate future from the library's side counts - whichever thread issues it (the family's
            # clients never cancel by themselves; environment threads "e*" only complete futures)
            if snap is None or i < snap["log_pos"]:
                cancels[obj] = cancels.get(obj, 0) + 1
            else:
                cancels[obj] = cancels.get(obj, 0) + 1
        if op == "deleg.submit" and snap is not None and i >= snap["log_pos"]:
            subs_after += 1
    if snap is not None:
        for idx, stt in enumerate(snap["states"]):
            c = cancels.get("d%d" % idx, 0)
            if c > 1:
                out.append({"what": "future received %d cancel() calls" % c, "detail": idx,
                            "pattern": "cos:multi-cancel"})
            if stt in ("PENDING", "RUNNING") and c != 1:
                out.append({"what": "future not done when shutdown() returned and cancel() count is %d" % c,
                            "detail": idx, "pattern": "cos:escaped"})
        if snap["dshut"] != 1:
            out.append({"what": "delegate.shutdown called %d times when shutdown() returned" % snap["dshut"],
                        "detail": None, "pattern": "cos:delegate-shutdown"})
        if subs_after:
            out.append({"what": "delegate.submit after shutdown() returned", "detail": subs_after,
                        "pattern": "cos:late-submit"})
        if len(obs.get("final_states", [])) > len(snap["states"]):
            out.append({"what": "future created after shutdown() returned", "detail": None,
                        "pattern": "cos:escaped-late"})
    for (kind, msg) in obs["rets"]:
        if kind == "raised" and "cannot schedule new futures after shutdown" not in msg:
            out.append({"what": "submit raised unexpected RuntimeError", "detail": msg,
                        "pattern": "cos:bad-error"})
    return out


def nontrivial(r, obs, events):
    """a history is non-trivial when a submit's gate..release window overlaps the shutdown call"""
    inside = set()
    overl = False
    for e in events:
        if e[0] in (0, 1):
            inside.add(e[1])
            if len(inside) > 1:
                overl = True
        elif e[0] == 8:
            inside.discard(e[1])
    return overl and any(e[0] == 1 for e in events)


def describe(p):
    return ["subs=%d" % len(p["subs"]), "shut_calls=%d" % p["shut_calls"],
            "env_ops=%d" % min(p["env_ops"], 4), "late" if p["late_submit"] else "nolate"]
N_QUICK = 2000
N_THOROUGH = 60000


def extra(stats, tier, seed):
    """API-level: a wrapped executor whose shutdown() RAISES (e.g. an executor with the pre-3.9 signature given cancel_futures=...).  The
    cancel-on-shutdown executor is shut down all the same: the flag stays set (submit raises, nothing escapes a sweep) and a retried
    shutdown() does not sweep again - every future it had returned and that was not done gets cancel() exactly once."""
    import drive
    from concurrent.futures import Future
    from more_executors._impl.cancel_on_shutdown import CancelOnShutdownExecutor
    known_patterns = set(k["pattern"] for k in drive.load_known(PROP))

    def viol(what, pattern, detail=None):
        v = {"what": what, "pattern": pattern, "detail": detail, "case": {"params": {}, "chooser": "none", "cseed": 0, "origin": "api"}}
        if pattern in known_patterns:
            stats.known.setdefault(pattern, v)
        else:
            stats.violations.append(v)

    class CF(Future):
        ncancel = 0

        def cancel(self):
            self.ncancel += 1
            return Future.cancel(self)

    class OldStyle(object):
        def __init__(self):
            self.futs = []
            self.sd = []

        def submit(self, fn, *a, **k):
            f = CF()
            self.futs.append(f)
            return f

        def shutdown(self, wait=True):          # no cancel_futures / **kwargs: the call below raises TypeError
            self.sd.append(wait)
    with det.atomic():
        for running in (False, True):
            d = OldStyle()
            ex = CancelOnShutdownExecutor(d)
            f1 = ex.submit(lambda: 1)
            f2 = ex.submit(lambda: 2)
            if running:
                f2.set_running_or_notify_cancel()
            stats.add([[10, 5, 1 if running else 0]], True, None, ["api:delegate-shutdown-raises"])
            try:
                ex.shutdown(True, cancel_futures=True)
                first = "returned"
            except TypeError:
                first = "raised"
            try:
                f3 = ex.submit(lambda: 3)
                viol("after a shutdown() whose delegate shutdown raised (%s), submit() returned a future (cancel() calls on it: %d): it escaped the sweep"
                     % (first, f3.ncancel), "cos:late-submit", "delegate-shutdown-raises")
            except RuntimeError:
                pass
            try:
                ex.shutdown(True)
            except Exception as e:
                viol("a repeated shutdown() raised %r" % (e,), "cos:shutdown-raised", "delegate-shutdown-raises")
            counts = [f.ncancel for f in (f1, f2)]
            if counts != [1, 1]:
                viol("futures not done at shutdown received %s cancel() calls (first shutdown %s, then a second one)" % (counts, first),
                     "cos:multi-cancel" if max(counts) > 1 else "cos:escaped", "delegate-shutdown-raises")
