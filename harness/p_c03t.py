"""C03 (timeout executor): the job thread is woken by every new job, so a deadline never waits for an unrelated one; scenario family and lockstep of C09 on Model/Timeout.v.
Only the lost-future / lost-wake-up verdicts of that family's monitor count here; every history is still
replayed on the component machine."""
import p_c09 as base

PROP = "C03"
MACHINE = base.MACHINE
N_QUICK = 1000
N_THOROUGH = 40000
KEEP = ("timeout:late", "timeout:deadlock", "timeout:thread-died", "timeout:thread-dead", "timeout:harness-exc")
if hasattr(base, "setup"):
    setup = base.setup
if hasattr(base, "expected_verdict"):
    expected_verdict = base.expected_verdict

gen = base.gen
execute = base.execute
encode = base.encode


def monitor(r, obs):
    return [v for v in base.monitor(r, obs) if v["pattern"] in KEEP]


nontrivial = base.nontrivial
describe = base.describe
