"""C01 (chains): own outcome through chains of map / flat_map stages over plain and library-future inputs; scenario family of p_c13x (monitor only)."""
import p_c13x as base

PROP = "C01"
MACHINE = None
N_QUICK = 600
N_THOROUGH = 20000
gen = base.gen
execute = base.execute
encode = base.encode
monitor = base.monitor
nontrivial = base.nontrivial
describe = base.describe
