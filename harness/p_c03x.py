"""C03 (library futures built on library futures): every leaf of a random expression tree over f_map / f_flat_map / f_proxy / f_nocancel /
f_timeout / f_zip / f_or / f_and is done - so the root must be done.  Scenario family of C02's p_c02x (monitor only); only the lost-output
verdicts of that family's monitor count here."""
import p_c02x as base

PROP = "C03"
MACHINE = None
N_QUICK = 800
N_THOROUGH = 40000
KEEP = ("compose:pending", "compose:deadlock", "compose:thread-died", "compose:harness-exc")
gen = base.gen
execute = base.execute
encode = base.encode


def monitor(r, obs):
    return [v for v in base.monitor(r, obs) if v["pattern"] in KEEP]


nontrivial = base.nontrivial
describe = base.describe
