"""C15: f_zip / f_sequence / f_traverse.  Lockstep of f_zip with Model/Comb.v + position monitor;
f_sequence / f_traverse and the size boundaries are checked at the API level (extra)."""
import random
import detsched as det
import lib
import comb_common as cc
import p_c14

PROP = "C15"
MACHINE = "comb"
N_QUICK = 2000
N_THOROUGH = 80000


def gen(rng):
    return cc.gen(rng, kinds=(2,))


execute = cc.execute
encode = cc.encode


def zfold(ins, order, obs):
    need = len(ins)
    seen = 0
    for d in order:
        o = p_c14.ext_outcome(obs["ext"][d])
        if o[0] == "cancelled":
            return ("cancelled",)
        if o[0] == "err":
            return o
        seen += ins.count(d)
        if seen >= need:
            return ("ok", tuple(obs["ext"][x]._result for x in ins))
    return ("pending",)


def monitor(r, obs):
    out = []
    if r.deadlock or r.hang:
        return [{"what": "deadlock", "detail": r.deadlock or "hang", "pattern": "comb:deadlock"}]
    if r.exc is not None:
        return [{"what": "harness-exception", "detail": getattr(r, "tb", repr(r.exc))[-500:], "pattern": "comb:harness-exc"}]
    for (nm, dn, e) in r.threads:
        if e is not None:
            out.append({"what": "thread %s died with %s" % (nm, e), "detail": nm, "pattern": "comb:thread-died"})
    p = obs["params"]
    if obs.get("ctor_exc"):
        return out + [{"what": "f_zip raised " + obs["ctor_exc"], "detail": p["ins"], "pattern": "comb:ctor-raised"}]
    iv, user_cancel_first = p_c14.intervals(r, p)
    got = obs["outcome"]
    if got[0] == "ok":
        got = ("ok", tuple(got[1]))
        if type(obs["out"]._result).__name__ != ("ZipTuple%d" % len(p["ins"]) if len(p["ins"]) < 20 else "tuple"):
            out.append({"what": "result class " + type(obs["out"]._result).__name__, "detail": len(p["ins"]), "pattern": "zip:tuple-class"})
    finished = [d for d in dict.fromkeys(p["ins"]) if d in iv]
    if user_cancel_first:
        exps = [("cancelled",)]
    else:
        exps = []
        for perm in p_c14.linearisations(finished, iv):
            e = zfold(p["ins"], perm, obs)
            if not any(p_c14.same(e, x) for x in exps):
                exps.append(e)
    if not any(p_c14.same(got, e) for e in exps):
        out.append({"what": "output %r; every admissible completion order gives one of %r" % (got, exps),
                    "detail": p["ins"], "pattern": "zip:wrong-outcome"})
    if got[0] in ("cancelled",):
        left = [d for d in set(p["ins"]) if obs["ext"][d]._state == "PENDING"]
        if left:
            out.append({"what": "output cancelled but inputs %s never received cancel()" % left, "detail": p["ins"],
                        "pattern": "zip:input-not-cancelled"})
    return out


nontrivial = p_c14.nontrivial
describe = p_c14.describe


def extra(stats, tier, seed):
    """API-level checks of the parts that are not a race: sizes 0/19/20/21/large, f_sequence,
    f_traverse call order and fault propagation."""
    from concurrent.futures import Future
    from more_executors.futures import f_zip, f_sequence, f_traverse, f_return, f_return_error
    rng = random.Random(seed + 5)

    def viol(what, pattern, detail=None):
        stats.violations.append({"what": what, "pattern": pattern, "detail": detail,
                                 "case": {"params": {}, "chooser": "none", "cseed": 0, "origin": "api"}})
    with det.atomic():
        for n in [0, 1, 2, 19, 20, 21, 300] + [rng.randint(0, 40) for _ in range(10 if tier == "quick" else 200)]:
            fs = [Future() for _ in range(n)]
            z = f_zip(*fs)
            order = list(range(n))
            rng.shuffle(order)
            for i in order:
                fs[i].set_result(("v", i))
            got = z.result(0)
            stats.add([[n] + order[:20]], n > 1, {"zip_size": n} if n in (0, 19, 20, 21) else None, ["api:zip"])
            if tuple(got) != tuple(("v", i) for i in range(n)):
                viol("f_zip of %d inputs: wrong positions" % n, "zip:positions", n)
            want = "ZipTuple%d" % n if n < 20 else "tuple"
            if type(got).__name__ != want:
                viol("f_zip of %d inputs returned %s" % (n, type(got).__name__), "zip:tuple-class", n)
        for trial in range(20 if tier == "quick" else 500):
            n = rng.randint(0, 6)
            xs = list(range(n))
            bad = rng.choice([None, None] + xs) if xs else None
            from concurrent.futures import CancelledError
            # whatever fn raises is the output's exception - also the exception types that iteration / future machinery
            # give a meaning of their own
            badexc = rng.choice([KeyError("k"), StopIteration("stop"), CancelledError(), ValueError(), TimeoutError()])
            calls = []
            futs = {}

            def fn(x):
                calls.append(x)
                if x == bad:
                    raise badexc
                futs[x] = Future()
                return futs[x]
            out = f_traverse(fn, xs)
            stats.add([[n, -1 if bad is None else bad]], True, None, ["api:traverse"])
            if bad is None:
                if calls != xs:
                    viol("f_traverse called fn with %s for %s" % (calls, xs), "traverse:calls", xs)
                order = list(xs)
                rng.shuffle(order)
                for i in order:
                    futs[i].set_result(i * 10)
                if out.result(0) != [i * 10 for i in xs] or type(out.result(0)) is not list:
                    viol("f_traverse result %r" % (out.result(0),), "traverse:result", xs)
            else:
                if calls != xs[:xs.index(bad) + 1]:
                    viol("f_traverse called fn with %s (fn raises at %s)" % (calls, bad), "traverse:calls", xs)
                if out._state != "FINISHED" or out._exception is not badexc:
                    viol("f_traverse: exception of fn not propagated", "traverse:fault", xs)
            ys = [f_return(i) for i in range(n)]
            s = f_sequence(ys)
            if s.result(0) != list(range(n)) or type(s.result(0)) is not list:
                viol("f_sequence result %r" % (s.result(0),), "sequence:result", n)
