"""C15: f_zip / f_sequence / f_traverse.  Lockstep of f_zip with Model/Comb.v + position monitor;
f_sequence / f_traverse and the size boundaries are checked at the API level (extra)."""
import random
import detsched as det
import lib
import comb_common as cc
import p_c14

PROP = "C15"
MACHINE = "comb"
N_QUICK = 2000
N_THOROUGH = 80000


def gen(rng):
    return cc.gen(rng, kinds=(2,))


execute = cc.execute
encode = cc.encode


def zfold(ins, order, obs):
    need = len(ins)
    seen = 0
    for d in order:
        o = p_c14.ext_outcome(obs["ext"][d])
        if o[0] == "cancelled":
            return ("cancelled",)
        if o[0] == "err":
            return o
        seen += ins.count(d)
        if seen >= need:
            return ("ok", tuple(obs["ext"][x]._result for x in ins))
    return ("pending",)


def monitor(r, obs):
    out = []
    if r.deadlock or r.hang:
        return [{"what": "deadlock", "detail": r.deadlock or "hang", "pattern": "comb:deadlock"}]
    if r.exc is not None:
        return [{"what": "harness-exception", "detail": getattr(r, "tb", repr(r.exc))[-500:], "pattern": "comb:harness-exc"}]
    for (nm, dn, e) in r.threads:
        if e is not None:
            out.append({"what": "thread %s died with %s" % (nm, e), "detail": nm, "pattern": "comb:thread-died"})
    p = obs["params"]
    if obs.get("ctor_exc"):
        return out + [{"what": "f_zip raised " + obs["ctor_exc"], "detail": p["ins"], "pattern": "comb:ctor-raised"}]
    iv, user_cancel_first = p_c14.intervals(r, p)
    got = obs["outcome"]
    if got[0] == "ok":
        got = ("ok", tuple(got[1]))
        if type(obs["out"]._result).__name__ != ("ZipTuple%d" % len(p["ins"]) if len(p["ins"]) < 20 else "tuple"):
            out.append({"what": "result class " + type(obs["out"]._result).__name__, "detail": len(p["ins"]), "pattern": "zip:tuple-class"})
    finished = [d for d in dict.fromkeys(p["ins"]) if d in iv]
    if user_cancel_first:
        exps = [("cancelled",)]
    else:
        exps = []
        for perm in p_c14.linearisations(finished, iv):
            e = zfold(p["ins"], perm, obs)
            if not any(p_c14.same(e, x) for x in exps):
                exps.append(e)
    if not any(p_c14.same(got, e) for e in exps):
        out.append({"what": "output %r; every admissible completion order gives one of %r" % (got, exps),
                    "detail": p["ins"], "pattern": "zip:wrong-outcome"})
    if got[0] in ("cancelled",):
        left = [d for d in set(p["ins"]) if obs["ext"][d]._state == "PENDING"]
        if left:
            out.append({"what": "output cancelled but inputs %s never received cancel()" % left, "detail": p["ins"],
                        "pattern": "zip:input-not-cancelled"})
    return out


nontrivial = p_c14.nontrivial
describe = p_c14.describe


def extra(stats, tier, seed):
    """API-level checks of the parts that are not a race: sizes 0/19/20/21/large, f_sequence,
    f_traverse call order and fault propagation."""
    from concurrent.futures import Future
    from more_executors.futures import f_zip, f_sequence, f_traverse, f_return, f_return_error
    rng = random.Random(seed + 5)

    import drive
    known_patterns = set(k["pattern"] for k in drive.load_known(PROP))

    def viol(what, pattern, detail=None):
        v = {"what": what, "pattern": pattern, "detail": detail,
             "case": {"params": {}, "chooser": "none", "cseed": 0, "origin": "api"}}
        if pattern in known_patterns:
            stats.known.setdefault(pattern, v)
        else:
            stats.violations.append(v)
    with det.atomic():
        for n in [0, 1, 2, 19, 20, 21, 300] + [rng.randint(0, 40) for _ in range(10 if tier == "quick" else 200)]:
            fs = [Future() for _ in range(n)]
            z = f_zip(*fs)
            order = list(range(n))
            rng.shuffle(order)
            for i in order:
                fs[i].set_result(("v", i))
            got = z.result(0)
            stats.add([[n] + order[:20]], n > 1, {"zip_size": n} if n in (0, 19, 20, 21) else None, ["api:zip"])
            if tuple(got) != tuple(("v", i) for i in range(n)):
                viol("f_zip of %d inputs: wrong positions" % n, "zip:positions", n)
            want = "ZipTuple%d" % n if n < 20 else "tuple"
            if type(got).__name__ != want:
                viol("f_zip of %d inputs returned %s" % (n, type(got).__name__), "zip:tuple-class", n)
        for trial in range(20 if tier == "quick" else 500):
            n = rng.randint(0, 6)
            xs = list(range(n))
            bad = rng.choice([None, None] + xs) if xs else None
            from concurrent.futures import CancelledError
            # whatever fn raises is the output's exception - also the exception types that iteration / future machinery
            # give a meaning of their own
            badexc = rng.choice([KeyError("k"), StopIteration("stop"), CancelledError(), ValueError(), TimeoutError()])
            calls = []
            futs = {}

            # futures fn returned for EARLIER elements may already have failed / been cancelled when fn raises: fn's own
            # exception is still the output's
            spoiled = {x: rng.choice(["failed", "cancelled"]) for x in xs if bad is not None and x < bad and rng.random() < 0.5}

            def fn(x):
                calls.append(x)
                if x == bad:
                    raise badexc
                futs[x] = Future()
                if spoiled.get(x) == "failed":
                    futs[x].set_exception(ValueError("element %d failed earlier" % x))
                elif spoiled.get(x) == "cancelled":
                    futs[x].cancel()
                    futs[x].set_running_or_notify_cancel()
                return futs[x]
            out = f_traverse(fn, xs)
            stats.add([[n, -1 if bad is None else bad]], True, None, ["api:traverse"])
            if bad is None:
                if calls != xs:
                    viol("f_traverse called fn with %s for %s" % (calls, xs), "traverse:calls", xs)
                order = list(xs)
                rng.shuffle(order)
                for i in order:
                    futs[i].set_result(i * 10)
                if out.result(0) != [i * 10 for i in xs] or type(out.result(0)) is not list:
                    viol("f_traverse result %r" % (out.result(0),), "traverse:result", xs)
            else:
                if calls != xs[:xs.index(bad) + 1]:
                    viol("f_traverse called fn with %s (fn raises at %s)" % (calls, bad), "traverse:calls", xs)
                if out._state != "FINISHED" or out._exception is not badexc:
                    viol("f_traverse: exception of fn not propagated", "traverse:fault", xs)
            # cancellation through f_sequence / f_traverse: an input cancelled first cancels the output; cancelling the
            # output requests cancellation of every pending input
            if n >= 1:
                for maker, nm in ((lambda fs: f_sequence(fs), "sequence"), (lambda fs: f_traverse(lambda f: f, fs), "traverse")):
                    fs = [Future() for _ in range(n)]
                    o = maker(fs)
                    k = rng.randrange(n)
                    for i in range(n):
                        if i != k and rng.random() < 0.4:
                            fs[i].set_result(i)
                    if fs[k].done():
                        continue
                    fs[k].cancel()
                    stats.add([[n, k, 77]], True, None, ["api:%s-input-cancel" % nm])
                    if not o.cancelled():
                        viol("f_%s: input %d of %d cancelled first, output is %s instead of cancelled" % (nm, k, n, o._state),
                             "%s:pending-after-input-cancel" % nm, n)
                    fs = [Future() for _ in range(n)]
                    o = maker(fs)
                    donei = [i for i in range(n) if rng.random() < 0.3 and i != 0]
                    for i in donei:
                        fs[i].set_result(i)
                    r = o.cancel()
                    stats.add([[n, 78] + donei], True, None, ["api:%s-output-cancel" % nm])
                    left = [i for i in range(n) if i not in donei and not fs[i].cancelled()]
                    if left or r is not True or not o.cancelled():
                        viol("f_%s: cancel() of the output returned %r, output %s, pending inputs %s never cancelled" % (nm, r, o._state, left),
                             "%s:output-cancel" % nm, n)
            ys = [f_return(i) for i in range(n)]
            s = f_sequence(ys)
            if s.result(0) != list(range(n)) or type(s.result(0)) is not list:
                viol("f_sequence result %r" % (s.result(0),), "sequence:result", n)
