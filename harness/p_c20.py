"""C20: metrics -- gauges return to reality at quiescence and never go negative; counters match
events.  Real stacks with a stand-in prometheus_client, under the scheduler."""
import os, sys
os.environ["MORE_EXECUTORS_PROMETHEUS"] = "1"
sys.path.insert(0, os.path.join(os.path.dirname(os.path.abspath(__file__)), "fakeprom"))
import random
import detsched as det
import lib

det.TIMER_EPS = 0.001     # TimeoutExecutor tests `deadline < now`: a timer that fires exactly at the deadline would spin

PROP = "C20"
MACHINE = None
NEEDS_POOL = True
N_QUICK = 1200
N_THOROUGH = 40000
FINAL_HOOK = None      # p_c20e: observations of the real executors / futures inside the final atomic block
KINDS = ["map", "flat_map", "poll", "retry", "throttle", "timeout", "cancel_on_shutdown"]
TYPE = {"map": "map", "flat_map": "flat_map", "poll": "poll", "retry": "retry", "throttle": "throttle", "timeout": "timeout",
        "cancel_on_shutdown": "cancel_on_shutdown"}


class FalsyError(KeyError):
    def __bool__(self):
        return False


class Counting(object):
    """stands between a retry executor and its delegate: counts submit() calls per callable, forwards everything"""

    def __init__(self, inner, counts):
        self.__dict__["_inner"] = inner
        self.__dict__["_counts"] = counts

    def submit(self, fn, *a, **k):
        e = self._counts.setdefault(id(fn), [fn, 0])      # keeps fn alive: its id cannot be re-used by a later callable
        e[1] += 1
        return self._inner.submit(fn, *a, **k)

    def __getattr__(self, n):
        return getattr(self._inner, n)

    def __setattr__(self, n, v):
        setattr(self._inner, n, v)


def gen(rng):
    depth = rng.randint(1, 4)
    layers = [rng.choice(KINDS) for _ in range(depth)]
    subs = []
    for s in range(rng.randint(1, 5)):
        subs.append({"script": [rng.choice(["ok", "err", "ok"]) for _ in range(3)] + ["ok"],
                     "block": rng.random() < 0.35, "cancel_at": rng.choice([None, None, 0, 1, 2, 4])})
    return {"base": rng.choice(["sync", "pool", "pool"]), "layers": layers, "subs": subs, "timeout": rng.choice([10 ** 6, 3]),
            "poll_faults": rng.random() < 0.2, "name": rng.choice(["default", "mx"]), "shutdown_early": rng.random() < 0.25,
            # the user shuts down the innermost (base) executor directly: later hand-overs to it are refused
            "base_shutdown_at": rng.choice([None, None, None, None, 0, 1]),
            # the first future's done-callback shuts the whole stack down with wait=True - from whatever thread completes it; on a
            # layer's own worker thread the join raises (cannot join current thread): the gauges must come out right all the same
            "cb_shutdown": rng.random() < 0.2}


def execute(p, chooser):
    import prometheus_client as pc
    from more_executors import Executors
    from more_executors.futures import f_return
    pc.reset()
    obs = {"params": p, "polls": 0, "poll_errors": 0, "invocations": {}, "outs": {}, "accepted": 0, "cancel_calls": [], "retry_submits": {}}
    from more_executors._impl import common as _common
    if not getattr(_common._Future.cancel, "_verif_wrapped", False):
        _orig_cancel = _common._Future.cancel

        _depth = {}

        def _cancel(self):
            # outermost cancel() call of each thread only (a derived future's cancel() cancels its delegate in turn)
            me = det.me()
            k = me.tid if me is not None else None
            _depth[k] = _depth.get(k, 0) + 1
            try:
                r = _orig_cancel(self)
            finally:
                _depth[k] -= 1
            rec = getattr(_common, "_verif_cancel_rec", None)
            if rec is not None and me is not None and _depth[k] == 0:
                rec.append((me.name, type(self).__name__, bool(r)))
            return r
        _cancel._verif_wrapped = True
        _common._Future.cancel = _cancel
    _common._verif_cancel_rec = obs["cancel_calls"]

    def main():
        det.emit("case", None, repr(p))
        gate = {"open": False}
        with det.atomic():
            kw = {"name": p["name"]}
            ex = Executors.sync(**kw) if p["base"] == "sync" else Executors.thread_pool(max_workers=2, **kw)
            base_ex = ex
            layer_objs = []
            for k in p["layers"]:
                if k == "map":
                    ex = ex.with_map(lambda v: v)
                elif k == "flat_map":
                    ex = ex.with_flat_map(lambda v: f_return(v))
                elif k == "poll":
                    def poll_fn(ds):
                        obs["polls"] += 1
                        if p["poll_faults"] and obs["polls"] % 3 == 1:
                            obs["poll_errors"] += 1
                            raise RuntimeError("poll fault")
                        for d in ds:
                            d.yield_result(d.result)
                    ex = ex.with_poll(poll_fn, default_interval=1)
                elif k == "retry":
                    ex = ex.with_retry(max_attempts=3, sleep=1)
                    if p["layers"].count("retry") == 1:
                        ex._delegate = Counting(ex._delegate, obs["retry_submits"])
                elif k == "throttle":
                    ex = ex.with_throttle(1)
                elif k == "timeout":
                    ex = ex.with_timeout(p["timeout"])
                else:
                    ex = ex.with_cancel_on_shutdown()
                layer_objs.append((k, ex))
        top = ex
        futs = {}
        if p.get("base_shutdown_at") == 0:
            base_ex.shutdown(False)

        def mk(s, spec):
            st = {"k": 0}

            def fn():
                k = st["k"]
                st["k"] += 1
                obs["invocations"][s] = k + 1
                if spec["block"] and p["base"] == "pool":
                    det.wait_until(lambda: gate["open"])
                if spec["script"][min(k, 3)] == "err":
                    raise (FalsyError(s) if s % 2 else KeyError(s))      # some failures carry a falsy exception object
                return s
            return fn
        for s, spec in enumerate(p["subs"]):
            try:
                futs[s] = top.submit(mk(s, spec))
                obs["accepted"] += 1
            except RuntimeError:
                pass
            if s == 0 and p.get("cb_shutdown") and s in futs:
                futs[s].add_done_callback(lambda f: top.shutdown(True))

        def canceller():
            t = 0
            for at in sorted(set(x["cancel_at"] for x in p["subs"] if x["cancel_at"] is not None)):
                det.sleep(at - t)
                t = at
                for s, spec in enumerate(p["subs"]):
                    if spec["cancel_at"] == at and s in futs:
                        futs[s].cancel()

        def opener():
            det.sleep(2)
            gate["open"] = True
        ts = [det.spawn("x", canceller), det.spawn("op", opener)]
        if p["shutdown_early"]:
            ts.append(det.spawn("sh", lambda: (det.sleep(1), top.shutdown(True))))
        if p.get("base_shutdown_at") == 1:
            ts.append(det.spawn("bsh", lambda: (det.sleep(1), base_ex.shutdown(False))))
        # (p_c20e) several threads shut the stack down at the same virtual time: exactly one of them is answered True per layer
        for k in range(p.get("shutdown_race", 0)):
            ts.append(det.spawn("race%d" % k, lambda: (det.sleep(p.get("race_at", 1)), top.shutdown(False))))
        for t in ts:
            t.join()
        # let everything finish, then shut down
        det.wait_until(lambda: all(f._state in ("CANCELLED", "CANCELLED_AND_NOTIFIED", "FINISHED") for f in futs.values())
                       or quiescent() or det.S.now > 300)
        top.shutdown(True)
        det.wait_until(lambda: quiescent() or det.S.now > 600)
        with det.atomic():
            for s, f in futs.items():
                st = f._state
                obs["outs"][s] = "pending" if st in ("PENDING", "RUNNING") else ("cancelled" if f.cancelled() else ("err" if f._exception is not None else "ok"))
            obs["registry"] = dict(pc.REGISTRY)
            # reality, read off the executors themselves
            obs["actual_throttle_queue"] = sum(len(o._to_submit) for (k, o) in layer_objs if k == "throttle")
            obs["actual_retry_queue"] = sum(len(o._jobs) for (k, o) in layer_objs if k == "retry")
            obs["history_min"] = min([v for (k, v) in pc.HISTORY] + [0])
            if FINAL_HOOK is not None:
                FINAL_HOOK(obs, quiescent())
            obs["negatives"] = sorted(set(k for (k, v) in pc.HISTORY if v < 0))

    def quiescent():
        s = det.S
        others = [t for t in s.threads.values() if not t.done and t.name != "main"]
        return all((t.blocked_on is not None and not t.blocked_on() and t.wake_at is None) for t in others)

    r = det.run(chooser, main)
    return r, obs


def encode(log):
    import zlib
    for (th, op, obj, val, ts) in log:
        if op == "case":
            return [[zlib.crc32(val.encode()) & 0xffffff, len(log) % 997]], []
    return [[len(log)]], []


def monitor(r, obs):
    p = obs["params"]
    if r.deadlock or r.hang:
        return [{"what": "deadlock %s" % (r.deadlock,), "detail": str(p), "pattern": "metrics:deadlock"}]
    if r.exc is not None:
        return [{"what": "harness-exception", "detail": getattr(r, "tb", repr(r.exc))[-600:], "pattern": "metrics:harness-exc"}]
    out = []
    reg = obs.get("registry", {})
    name = p["name"]
    if obs["negatives"]:
        out.append({"what": "gauges went negative: %s" % obs["negatives"], "detail": str(p), "pattern": "metrics:negative:" + obs["negatives"][0][0]})
    # the queue gauges against the queues themselves - whatever else is still pending
    for gname, key in (("more_executors_throttle_queue", "actual_throttle_queue"), ("more_executors_retry_queue", "actual_retry_queue")):
        g = sum(v for k, v in reg.items() if k[0] == gname and k[-1] == name)
        if key in obs and g != obs[key]:
            out.append({"what": "gauge %s is %s, the executors' queues hold %s entries" % (gname, g, obs[key]), "detail": str(p),
                        "pattern": "metrics:queue-gauge:" + gname})
    # timeouts that succeeded = cancel() calls made by a timeout thread that returned True
    if "timeout" in p["layers"]:
        want = sum(1 for (th, cls, r) in obs.get("cancel_calls", []) if th.startswith("TimeoutExecutor-") and r)
        if val0(reg, "timeout", name) != want:
            out.append({"what": "timeout_total = %s, %d cancels by a timeout thread succeeded" % (val0(reg, "timeout", name), want),
                        "detail": str(p), "pattern": "metrics:timeout_total"})
    # retries = hand-overs of an attempt after the first one of its submission
    if p["layers"].count("retry") == 1:
        want = sum(max(0, c[1] - 1) for c in obs.get("retry_submits", {}).values())
        if val0(reg, "retry_total", name) != want:
            out.append({"what": "retry_total = %s, %d attempts after a first one were handed to the delegate" % (val0(reg, "retry_total", name), want),
                        "detail": str(p), "pattern": "metrics:retry_total"})
    if any(o == "pending" for o in obs["outs"].values()):
        return out     # something never finished (another property's business): gauges legitimately non-zero
    for k, v in sorted(reg.items()):
        if k[0] in ("more_executors_future_inprogress", "more_executors_exec_inprogress", "more_executors_retry_queue",
                    "more_executors_throttle_queue") and v != 0 and k[-1] == name:
            out.append({"what": "gauge %s is %s after everything finished and the stack was shut down" % (k, v), "detail": str(p),
                        "pattern": "metrics:gauge-drift:" + k[0]})
    # the future handed to the user is created by the topmost layer that creates futures
    # (cancel_on_shutdown returns its delegate's future unchanged)
    creators = [k for k in p["layers"] if k != "cancel_on_shutdown"]
    top = TYPE[creators[-1]] if creators else ("sync" if p["base"] == "sync" else "threadpool")
    unique_top = (creators.count(creators[-1]) == 1) if creators else True
    def val(n, *l):
        return reg.get(("more_executors_" + n,) + l, 0)
    if unique_top and val("future_total", top, name) != obs["accepted"]:
        out.append({"what": "future_total{%s} = %s, %d submissions accepted" % (top, val("future_total", top, name), obs["accepted"]),
                    "detail": str(p), "pattern": "metrics:future_total"})
    ncancel = sum(1 for o in obs["outs"].values() if o == "cancelled")
    nerr = sum(1 for o in obs["outs"].values() if o == "err")
    if unique_top:
        if val("future_cancel", top, name) != ncancel:
            out.append({"what": "future_cancel{%s} = %s, %d futures ended cancelled" % (top, val("future_cancel", top, name), ncancel),
                        "detail": str(p), "pattern": "metrics:future_cancel"})
        if val("future_error", top, name) != nerr:
            out.append({"what": "future_error{%s} = %s, %d futures failed" % (top, val("future_error", top, name), nerr),
                        "detail": str(p), "pattern": "metrics:future_error"})
    if p["layers"].count("poll") == 1:
        if val("poll_total", name) != obs["polls"] or val("poll_error", name) != obs["poll_errors"]:
            out.append({"what": "poll_total/poll_error = %s/%s, poll function ran %d times and raised %d times" %
                        (val("poll_total", name), val("poll_error", name), obs["polls"], obs["poll_errors"]), "detail": str(p), "pattern": "metrics:poll"})
    for k in set(p["layers"]):
        if val("exec_total", TYPE[k], name) != p["layers"].count(k):
            out.append({"what": "exec_total{%s} = %s, %d created" % (k, val("exec_total", TYPE[k], name), p["layers"].count(k)), "detail": str(p), "pattern": "metrics:exec_total"})
    return out


def val0(reg, n, *l):
    return reg.get(("more_executors_" + n,) + l, 0)


def nontrivial(r, obs, events):
    p = obs["params"]
    return any(s["cancel_at"] is not None for s in p["subs"]) or any("err" in s["script"][:1] for s in p["subs"])


def describe(p):
    return ["base=" + p["base"], "depth=%d" % len(p["layers"]), "subs=%d" % len(p["subs"])] + ["has_" + k for k in sorted(set(p["layers"]))]


def extra(stats, tier, seed):
    """API-level: a construction that FAILS in user code (a throttle count callable that raises when the constructor evaluates it; a retry
    policy / poll arguments that make __init__ raise) creates no executor: exec_inprogress and exec_total stay what they were."""
    import drive
    import prometheus_client as pc
    from more_executors import Executors
    known_patterns = set(k["pattern"] for k in drive.load_known(PROP))

    def viol(what, pattern, detail=None):
        v = {"what": what, "pattern": pattern, "detail": detail, "case": {"params": {}, "chooser": "none", "cseed": 0, "origin": "api"}}
        if pattern in known_patterns:
            stats.known.setdefault(pattern, v)
        else:
            stats.violations.append(v)

    def snap():
        return {k: v for k, v in pc.REGISTRY.items() if "exec_inprogress" in str(k) or "exec_total" in str(k)}

    def boom():
        raise ValueError("count callable fails at construction time")
    with det.atomic():
        base = Executors.sync(name="c20x")
        cases = [("throttle, count callable raising", lambda: base.with_throttle(boom)),
                 ("timeout without a timeout", lambda: base.with_timeout()),
                 ("map with a bad keyword", lambda: base.with_map(lambda x: x, no_such_keyword=1))]
        for nm, build in cases:
            before = snap()
            try:
                ex = build()
            except Exception:
                ex = None
            stats.add([[20, 11, len(nm)]], True, None, ["api:failed-construction"])
            if ex is not None:
                ex.shutdown(False)
                continue
            after = snap()
            if after != before:
                diff = {str(k): (before.get(k, 0), after.get(k, 0)) for k in set(before) | set(after) if before.get(k, 0) != after.get(k, 0)}
                viol("a failed construction (%s) changed the executor metrics although no executor exists: %s" % (nm, diff),
                     "metrics:failed-construction", nm)
        base.shutdown(False)
