"""C13 (chains, API level): linear chains of 1-3 map / flat_map stages, in f_* form or executor form, over ONE input that is a
plain future or a library future (f_proxy / f_nocancel / f_map of the environment future), completed with a value or an
exception by an environment thread (or already done); every stage has scripted fn / error_fn behaviour (return, raise new,
re-raise the same exception, return a future that is already done / already failed / still pending, return a non-future);
optionally another thread cancels the output at a scheduler-chosen moment.  Monitor only (the single stage is in lockstep with
Model/MapFut.v in p_c13): the output is the sequential meaning of the chain (exception identity included), every fn / error_fn is
called at most once and only for its own case, a cancel() that returned True leaves the output cancelled, nothing blocks."""
import zlib
import detsched as det
from concurrent.futures import Future

PROP = "C13"
MACHINE = None
N_QUICK = 1200
N_THOROUGH = 40000


class XE(Exception):
    pass


class FalsyXE(Exception):
    def __bool__(self):
        return False


FN = ["tag", "tag", "tag", "raise"]
FN_FLAT = ["fut_done", "fut_done", "fut_pending", "fut_failed", "nonfuture", "raise"]
EFN = [None, None, "recover", "same", "raise"]


def gen(rng):
    n = rng.choice([1, 2, 2, 3])
    stages = []
    for k in range(n):
        kind = rng.choice(["map", "flat_map"])
        stages.append({"kind": kind, "fn": rng.choice(FN_FLAT if kind == "flat_map" else FN), "efn": rng.choice(EFN),
                       "hasfn": rng.random() < 0.9})
    return {"form": rng.choice(["f", "f", "exec"]), "stages": stages, "input": rng.choice(["ok", "ok", "err", "err_falsy"]),
            "wrap": rng.choice([None, None, "proxy", "nocancel", "map"]), "pre": rng.random() < 0.3,
            "cancel": rng.random() < 0.35, "env_threads": 1,
            # which exception class a raising fn / error_fn uses (all of them are Exceptions: whatever fn raises is the outcome)
            "exc_kind": rng.randrange(6),
            # done-callbacks (some raising) somebody registered on the INTERMEDIATE futures before the next stage was chained on
            "mid_cbs": [rng.choice([None, None, False, True]) for _ in range(n)],
            # a done-callback on the OUTPUT that waits for another thread which asks the same future something (done-callbacks run with no
            # lock of the future held, so that thread returns at once)
            "cb_joins": rng.random() < 0.3}


def expected(p, exc_in, excs):
    """sequential meaning: ('ok', value) / ('err', exception object or ('type', name)) and the calls that must have happened"""
    cur = ("ok", "v0") if p["input"] == "ok" else ("err", exc_in)
    calls = []
    for k, st in enumerate(p["stages"]):
        flat = st["kind"] == "flat_map"
        if cur[0] == "ok":
            if not st["hasfn"]:
                continue          # an omitted function is the identity (f_return for flat_map)
            calls.append(("fn", k))
            a = st["fn"]
            if a == "tag":
                cur = ("ok", ("t%d" % k, cur[1]))
            elif a == "raise":
                cur = ("err", excs[("fn", k)])
            elif a in ("fut_done", "fut_pending"):
                cur = ("ok", ("f%d" % k, cur[1]))
            elif a == "fut_failed":
                cur = ("err", excs[("inner", k)])
                # the future returned by fn failed: error_fn is NOT applied to it (it belongs to the input's failure only)
            elif a == "nonfuture":
                cur = ("err", ("type", "TypeError"))
        else:
            a = st["efn"]
            if a is None:
                continue
            calls.append(("efn", k))
            if a == "recover":
                cur = ("ok", ("e%d" % k,))
            elif a == "same":
                pass
            elif a == "raise":
                cur = ("err", excs[("efn", k)])
    return cur, calls


def execute(p, chooser):
    from more_executors.futures import f_map, f_flat_map, f_proxy, f_nocancel, f_return, f_return_error
    from more_executors import Executors
    obs = {"params": p, "calls": [], "excs": {}, "cancel_ret": None, "pending_inner": []}

    def main():
        det.emit("case", None, repr(p))
        with det.atomic():
            leaf = Future()
        exc_in = FalsyXE("input") if p["input"] == "err_falsy" else XE("input")
        obs["exc_in"] = exc_in
        from concurrent.futures import InvalidStateError, CancelledError
        kinds = [XE, InvalidStateError, CancelledError, StopIteration, TimeoutError, KeyError]
        for k, st in enumerate(p["stages"]):
            obs["excs"][("fn", k)] = kinds[(p.get("exc_kind", 0) + k) % 6]("fn%d" % k)
            obs["excs"][("efn", k)] = kinds[(p.get("exc_kind", 0) + k + 3) % 6]("efn%d" % k)
            obs["excs"][("inner", k)] = XE("inner%d" % k)

        def complete():
            try:
                if p["input"] == "ok":
                    leaf.set_result("v0")
                else:
                    leaf.set_exception(exc_in)
            except Exception:
                pass          # the leaf was cancelled through the output: the environment lost that race

        if p["pre"]:
            with det.atomic():
                complete()
        with det.atomic():
            src = leaf if p["wrap"] is None else f_proxy(leaf) if p["wrap"] == "proxy" else f_nocancel(leaf) if p["wrap"] == "nocancel" \
                else f_map(leaf, lambda x: x)

        def mkfn(k, st):
            flat = st["kind"] == "flat_map"

            def fn(x):
                obs["calls"].append(("fn", k))
                det.user("fn", (k, 0))
                a = st["fn"]
                if a == "raise":
                    raise obs["excs"][("fn", k)]
                if a == "tag":
                    return ("t%d" % k, x)
                if a == "fut_done":
                    return f_return(("f%d" % k, x))
                if a == "fut_failed":
                    return f_return_error(obs["excs"][("inner", k)])
                if a == "fut_pending":
                    inner = Future()
                    obs["pending_inner"].append((inner, ("f%d" % k, x)))
                    return inner
                return ("not-a-future", x)

            def efn(e):
                obs["calls"].append(("efn", k))
                det.user("efn", (k, 0))
                a = st["efn"]
                if a == "same":
                    raise e
                if a == "raise":
                    raise obs["excs"][("efn", k)]
                return f_return(("e%d" % k,)) if flat else ("e%d" % k,)
            return (fn if st["hasfn"] else None), (efn if st["efn"] is not None else None)

        cur = src
        execs = []
        for k, st in enumerate(p["stages"]):
            fn, efn = mkfn(k, st)
            kw = {}
            if efn is not None:
                kw["error_fn"] = efn
            if p["form"] == "f":
                cur = (f_flat_map if st["kind"] == "flat_map" else f_map)(cur, fn, **kw)
            else:
                # executor form: a layer over an executor whose submit() returns the previous stage's future
                class Pass(object):
                    def __init__(self, f):
                        self.f = f

                    def submit(self, *a, **k2):
                        return self.f

                    def shutdown(self, *a, **k2):
                        pass
                with det.atomic():
                    ex = (Executors.with_flat_map if st["kind"] == "flat_map" else Executors.with_map)(Pass(cur), fn, **kw)
                execs.append(ex)
                cur = ex.submit(lambda: None)
            mc = (p.get("mid_cbs") or [None] * 8)[k]
            if mc is not None:
                def midcb(f, raises=mc):
                    if raises:
                        raise RuntimeError("callback fault on an intermediate future")
                cur.add_done_callback(midcb)
        out = cur
        obs["out"] = out
        if p.get("cb_joins"):
            def joining(f):
                def other():
                    f.done()
                    f.add_done_callback(lambda _f: None)
                    f.cancel()
                t = det.spawn("j0", other)
                t.join()
            out.add_done_callback(joining)

        def env():
            det.switch("env")
            if not p["pre"]:
                complete()
            # inner futures handed out by flat_map functions finish later, from this thread
            while True:
                det.switch("env")
                with det.atomic():
                    todo = [x for x in obs["pending_inner"] if not x[0].done()]
                if not todo:
                    break
                inner, v = todo[0]
                try:
                    inner.set_result(v)
                except Exception:
                    pass

        def canceller():
            det.switch("cancel")
            try:
                obs["cancel_ret"] = bool(out.cancel())
            except BaseException as e:
                if isinstance(e, det.Abort):
                    raise
                obs["cancel_ret"] = ("raised", type(e).__name__)
        ts = [det.spawn("e0", env)]
        if p["cancel"]:
            ts.append(det.spawn("x0", canceller))
        for t in ts:
            t.join()
        # a pending inner future may have been created after env looked: finish the stragglers
        for inner, v in list(obs["pending_inner"]):
            if not inner.done():
                try:
                    inner.set_result(v)
                except Exception:
                    pass
        with det.atomic():
            st = out._state
            obs["res"] = (st, out._exception if st == "FINISHED" else None, out._result if st == "FINISHED" else None)

    r = det.run(chooser, main)
    return r, obs


def encode(log):
    for (th, op, obj, val, ts) in log:
        if op == "case":
            return [[zlib.crc32(val.encode()) & 0xffffff, len(log) % 997]], []
    return [[len(log)]], []


def monitor(r, obs):
    p = obs["params"]
    if r.deadlock or r.hang:
        return [{"what": "deadlock %s" % (r.deadlock,), "detail": str(p), "pattern": "chain:deadlock"}]
    if r.exc is not None:
        return [{"what": "harness-exception", "detail": getattr(r, "tb", repr(r.exc))[-600:], "pattern": "chain:harness-exc"}]
    out = []
    for (nm, dn, e) in r.threads:
        if e is not None:
            out.append({"what": "thread %s died with %s" % (nm, e), "detail": nm, "pattern": "chain:thread-died"})
    st, exc, res = obs["res"]
    calls = obs["calls"]
    for c in set(calls):
        if calls.count(c) > 1:
            out.append({"what": "%s of stage %d called %d times" % (c[0], c[1], calls.count(c)), "detail": str(p), "pattern": "chain:called-twice"})
    cr = obs["cancel_ret"]
    if isinstance(cr, tuple):
        out.append({"what": "cancel() raised %s" % cr[1], "detail": str(p), "pattern": "chain:cancel-raised"})
    if cr is True:
        if not st.startswith("CANCELLED"):
            out.append({"what": "cancel() returned True but the output is %s" % st, "detail": str(p), "pattern": "chain:cancel-true-not-cancelled"})
        return out
    if st.startswith("CANCELLED"):
        # (a cancel that propagated to the input and came back; only possible when somebody cancelled)
        if not p["cancel"]:
            out.append({"what": "output cancelled although nobody cancelled", "detail": str(p), "pattern": "chain:wrong-outcome"})
        return out
    want, want_calls = expected(p, obs["exc_in"], obs["excs"])
    if st != "FINISHED":
        out.append({"what": "the input is done but the output is %s" % st, "detail": str(p), "pattern": "chain:pending"})
        return out
    if want[0] == "ok":
        good = exc is None and res == want[1]
    elif isinstance(want[1], tuple):
        good = exc is not None and type(exc).__name__ == want[1][1]
    else:
        good = exc is want[1]
    if not good:
        out.append({"what": "output %r / %r, the chain means %r" % (exc, res, want), "detail": str(p), "pattern": "chain:wrong-outcome"})
    if cr is not True and sorted(calls) != sorted(want_calls) and not p["cancel"]:
        out.append({"what": "calls %r, the chain means %r" % (calls, want_calls), "detail": str(p), "pattern": "chain:calls"})
    return out


def nontrivial(r, obs, events):
    return len(obs["params"]["stages"]) >= 2 and r.preempts > 0


def describe(p):
    return ["stages=%d" % len(p["stages"]), "form=" + p["form"], "input=" + p["input"], "wrap=%s" % p["wrap"],
            "cancel" if p["cancel"] else "nocancel"]
