"""C06 (ThrottleFuture: a queued future whose cancel() returned True is never handed to the delegate).  Scenario family and lockstep of C07 (p_c07) on the component machine; only the verdicts of that
family's monitor that belong to this property count here; every history is still replayed on the component machine."""
import p_c07 as base
LINE_PREEMPT = False     # the Throttle monitor reconstructs queue / counter state from the ADJACENCY of log entries of one thread:
#                          runs with line-level preemption (drive.py) would be misread by it

PROP = "C06"
MACHINE = base.MACHINE
N_QUICK = 600
N_THOROUGH = 20000
KEEP = ('throttle:cancel-ghost', 'throttle:deadlock', 'throttle:harness-exc', 'throttle:thread-died', 'throttle:fifo')
if hasattr(base, "setup"):
    setup = base.setup
if hasattr(base, "expected_verdict"):
    expected_verdict = base.expected_verdict
if hasattr(base, "directed"):
    directed = base.directed

gen = base.gen
execute = base.execute
encode = base.encode


def monitor(r, obs):
    return [v for v in base.monitor(r, obs) if v["pattern"].startswith(KEEP)]


nontrivial = base.nontrivial
describe = base.describe
