"""C11 (gate): helpers.ShutdownHelper in lockstep with coq/Model/Gate.v + monitor.
Several threads run `helper()` (what shutdown() does first) and `with helper.ensure_alive(): body`
(what every submit() is wrapped in) concurrently on one helper."""
import random
import detsched as det
import lib

PROP = "C11"
MACHINE = "gate"
N_QUICK = 800
N_THOROUGH = 30000
MSG = "cannot schedule new futures after shutdown"


def gen(rng):
    nt = rng.randint(2, 4)
    return {"progs": [[rng.choice(["sub", "sub", "shut"]) for _ in range(rng.randint(1, 3))] for _ in range(nt)]}


def execute(p, chooser):
    from more_executors._impl.helpers import ShutdownHelper
    obs = {"params": p, "wins": [], "bodies": [], "raises": []}

    def main():
        with det.atomic():
            h = ShutdownHelper()
            det.S.name(h._lock, "G")

        def prog(k, ops):
            def run():
                for op in ops:
                    if op == "shut":
                        det.emit("call", "shutdown")
                        r = h()
                        det.emit("ret", "shutdown", 2 if r else 3)
                        if r:
                            obs["wins"].append((k, len(det.S.log)))
                    else:
                        det.emit("call", "submit")
                        try:
                            with h.ensure_alive():
                                obs["bodies"].append((k, len(det.S.log)))
                                det.switch("body")
                            det.emit("ret", "submit", 0)
                        except RuntimeError as e:
                            obs["raises"].append((k, str(e)))
                            det.emit("ret", "submit", 1)
            return run
        ts = [det.spawn("c%d" % k, prog(k, ops)) for k, ops in enumerate(p["progs"])]
        for t in ts:
            t.join()

    r = det.run(chooser, main)
    return r, obs


def encode(log):
    """call -> [0/1,t]; acq G -> [2,t]; rel G is merged with the code of the thread's next ret -> [3,t,code]"""
    tids = lib.Tids()
    ev, bad = [], []
    pending = {}    # thread -> index in ev of its Rel awaiting a code
    for (th, op, obj, val, ts) in log:
        if th == "main" or op in ("thread.exit", "switch"):
            continue
        t = tids(th)
        if op == "call":
            ev.append([0 if obj == "submit" else 1, t])
        elif op == "acq" and obj == "G":
            ev.append([2, t])
        elif op == "rel" and obj == "G":
            pending[th] = len(ev)
            ev.append([3, t, -1])
        elif op == "ret":
            if th in pending:
                ev[pending.pop(th)][2] = val
            else:
                ev.append([4, t, val])      # returned without having passed through the gate
        else:
            bad.append((th, op, obj, val))
    return ev, bad


def monitor(r, obs):
    if r.deadlock or r.hang:
        return [{"what": "deadlock on the gate: %s" % (r.deadlock,), "detail": None, "pattern": "gate:deadlock"}]
    if r.exc is not None:
        return [{"what": "harness-exception", "detail": getattr(r, "tb", repr(r.exc))[-500:], "pattern": "gate:harness-exc"}]
    out = []
    for (nm, dn, e) in r.threads:
        if e is not None:
            out.append({"what": "thread %s died with %s" % (nm, e), "detail": nm, "pattern": "gate:thread-died"})
    nshut = sum(ops.count("shut") for ops in obs["params"]["progs"])
    if len(obs["wins"]) != (1 if nshut else 0):
        out.append({"what": "%d of %d shutdown helper calls returned True (the delegate chain is shut down once per True)"
                            % (len(obs["wins"]), nshut), "detail": obs["wins"], "pattern": "gate:wins"})
    if obs["wins"]:
        w = min(pos for (_, pos) in obs["wins"])
        late = [b for b in obs["bodies"] if b[1] > w]
        if late:
            out.append({"what": "a submit body was entered after the shutdown helper returned True", "detail": late, "pattern": "gate:submit-after"})
    for (k, msg) in obs["raises"]:
        if msg != MSG:
            out.append({"what": "submit raised RuntimeError(%r)" % msg, "detail": k, "pattern": "gate:message"})
    return out


def nontrivial(r, obs, events):
    p = obs["params"]
    return sum(ops.count("shut") for ops in p["progs"]) >= 1 and r.preempts > 0


def describe(p):
    ns = sum(ops.count("shut") for ops in p["progs"])
    return ["threads=%d" % len(p["progs"]), "shutdowns=%d" % min(ns, 3)]
