"""C17 (the future underneath): ProxyFuture and NoCancelFuture are MapFuture subclasses - their set_result / set_exception /
add_done_callback / cancel protocol is MapFuture's.  Scenario family and lockstep of C02/C13 on Model/MapFut.v; the
protocol verdicts that would make a proxy never resolve (lost callback, waiter not released) count here."""
import p_c02m as base

PROP = "C17"
MACHINE = base.MACHINE
N_QUICK = 1000
N_THOROUGH = 30000
KEEP = ("proto:callback-count", "proto:thread-died", "proto:deadlock", "proto:harness-exc", "proto:outcome-changed",
        "proto:waiter-not-released:result", "proto:waiter-not-released:exception", "proto:waiter-not-released:wait",
        "proto:waiter-not-released:as_completed")

gen = base.gen
execute = base.execute
encode = base.encode


def monitor(r, obs):
    return [v for v in base.monitor(r, obs) if v["pattern"] in KEEP]


nontrivial = base.nontrivial
describe = base.describe
