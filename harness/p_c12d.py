"""C12 (worker threads exit whatever they are doing): a worker thread that blocks for ever inside the library - on a lock it already holds, in a
done-callback it runs itself - never exits.  The client programs of C04 (p_c04: nested submissions from callables, map functions and done-callbacks,
timeouts that really fire) with the deadlock verdicts that are not C04's known finding G10."""
import p_c04 as base

PROP = "C12"
MACHINE = None
NEEDS_POOL = getattr(base, "NEEDS_POOL", False)
N_QUICK = 400
N_THOROUGH = 20000
if hasattr(base, "setup"):
    setup = base.setup
gen = base.gen
execute = base.execute
encode = base.encode


def monitor(r, obs):
    return [v for v in base.monitor(r, obs) if v["pattern"].startswith("deadlock:other") or v["pattern"] == "deadlock:harness-exc"]


nontrivial = base.nontrivial
describe = base.describe
