"""C20 (executor gauges / counters and future gauges / counters in lockstep): the real stacks of p_c20, with
every update of exec_inprogress / exec_total / future_inprogress / future_total / future_cancel / future_error
observed in the stand-in registry and logged from outside together with what it belongs to:

  * the executor INSTANCE in whose __init__ / shutdown() it happens (both methods of every executor class are
    wrapped at install time; an update is attributed to the innermost open bracket of the calling thread),
  * the answer of that instance's ShutdownHelper (the test-and-set), logged while the gate lock is still held,
  * entry and exit (return or exception) of every shutdown() call,
  * the future a track_future / record_done call is about, and that future's real outcome.

The projection of every implementation history onto these operations is replayed on Model/ExecGauge.v
(extracted), whose theorems (Props/C20_exec.v) turn the local discipline into "the gauge of an instance is 1
exactly while it is created and not shut down (up to the winner's pending decrement), never negative; the
counters count; future_inprogress = tracked and not yet recorded"."""
import sys
import detsched as det
import p_c20
from p_c20 import nontrivial, PROP, NEEDS_POOL      # noqa: F401

MACHINE = "execgauge"
N_QUICK = 600
N_THOROUGH = 20000
NS = "more_executors_"
EXEC = {NS + "exec_total": "x.total", NS + "exec_inprogress": "x.prog"}
FUT = {NS + "future_total": "f.total", NS + "future_inprogress": "f.prog", NS + "future_cancel": "f.cancel",
       NS + "future_error": "f.error"}
OPS = ("x.init", "x.init.end", "x.call", "x.ret", "x.ans", "f.track", "f.track.end", "f.rec", "f.rec.end", "m.upd", "x.obs", "f.obs")
MODULES = ["sync", "wrapped", "map", "flat_map", "poll", "retry", "throttle", "timeout", "cancel_on_shutdown", "asyncio"]


def _ids(table, x, new=True):
    """small integers for objects, per run; the objects are kept so that ids stay unique"""
    s = det.S
    if s is None:
        return None
    m = s.__dict__.setdefault("_xg_" + table, {})
    k = m.get(id(x))
    if k is None and new:
        k = len(m)
        m[id(x)] = k
        s.__dict__.setdefault("_xg_keep", []).append(x)
        s.__dict__.setdefault("_xg_obj_" + table, {})[k] = x
    return k


def _live():
    return det.S is not None and det.me() is not None


def _emit(op, obj=None, val=None):
    """thread NAMES are not unique (two throttle layers of one name): every event carries the logical thread's id"""
    det.emit(op, obj, (det.me().tid, val))


def _wrap_class(cls, helper_cls):
    if "__init__" in cls.__dict__:
        o_init = cls.__dict__["__init__"]

        def init(self, *a, **k):
            if not _live():
                return o_init(self, *a, **k)
            inst = _ids("inst", self)
            _emit("x.init", inst, type(self).__name__)
            try:
                return o_init(self, *a, **k)
            finally:
                for v in list(vars(self).values()):
                    if isinstance(v, helper_cls):
                        v.__dict__["_verif_inst"] = inst
                        det.S.__dict__.setdefault("_xg_helper", {})[inst] = v
                _emit("x.init.end", inst)
                h = det.S.__dict__.get("_xg_helper", {}).get(inst)
                if h is not None:
                    _emit("x.obs", inst, bool(h.is_shutdown))      # a freshly built executor: created, not shut down
        init._verif_xg = True
        cls.__init__ = init
    if "shutdown" in cls.__dict__:
        o_shut = cls.__dict__["shutdown"]

        def shutdown(self, *a, **k):
            if not _live():
                return o_shut(self, *a, **k)
            inst = _ids("inst", self, new=False)
            _emit("x.call", inst)
            try:
                return o_shut(self, *a, **k)
            finally:
                _emit("x.ret", inst)
        shutdown._verif_xg = True
        cls.shutdown = shutdown


def setup():
    import importlib
    import prometheus_client as pc
    from concurrent.futures import Executor
    from more_executors._impl import helpers
    from more_executors._impl import metrics as mmod
    if getattr(helpers, "_verif_xg", False):
        return
    helpers._verif_xg = True

    def hook(kind, key, delta):
        if (key[0] in EXEC or key[0] in FUT) and _live():
            _emit("m.upd", key, delta)
    pc.HOOK = hook

    # every executor class of the library: __init__ and shutdown() bracketed per instance
    for name in MODULES:
        try:
            mod = importlib.import_module("more_executors._impl." + name)
        except Exception:
            continue
        for cls in list(vars(mod).values()):
            if isinstance(cls, type) and issubclass(cls, Executor) and cls.__module__ == mod.__name__:
                _wrap_class(cls, helpers.ShutdownHelper)

    # the test-and-set: its answer is logged before the gate lock is released, so that answers appear in the
    # history in the order in which they were decided
    o_call = helpers.ShutdownHelper.__call__

    def call(self):
        if not _live():
            return o_call(self)
        with self._lock:
            r = o_call(self)
            _emit("x.ans", self.__dict__.get("_verif_inst"), bool(r))
        return r
    helpers.ShutdownHelper.__call__ = call

    # track_future (imported by name into every module that uses it) and record_done (looked up in the metrics
    # module when track_future builds the callback)
    o_track = mmod.track_future
    o_rec = mmod.record_done

    def track_future(f, **labels):
        if not _live():
            return o_track(f, **labels)
        fid = _ids("fut", f)
        _emit("f.track", fid)
        try:
            return o_track(f, **labels)
        finally:
            _emit("f.track.end", fid)

    def record_done(f, *a, **k):
        if not _live():
            return o_rec(f, *a, **k)
        fid = _ids("fut", f)
        _emit("f.rec", fid)
        try:
            return o_rec(f, *a, **k)
        finally:
            # the real outcome, read off the (finished, hence immutable) future without a visible operation
            st = getattr(f, "_state", None)
            kind = 1 if st in ("CANCELLED", "CANCELLED_AND_NOTIFIED") else (2 if getattr(f, "_exception", None) is not None else 0)
            _emit("f.rec.end", fid, kind)
    mmod.record_done = record_done
    for mname, mod in list(sys.modules.items()):
        if mname.startswith("more_executors") and mod is not None and mod.__dict__.get("track_future") is o_track:
            mod.track_future = track_future


def gen(rng):
    """p_c20's family, plus (in a third of the cases) two or three threads that shut the whole stack down at the same
    virtual time as each other and - with shutdown_early - as p_c20's own early shutdown: concurrent callers of one
    instance's test-and-set"""
    p = p_c20.gen(rng)
    p["shutdown_race"] = rng.choice([0, 0, 0, 0, 2, 3])
    p["race_at"] = rng.choice([0, 1, 1, 2])
    return p


def describe(p):
    return p_c20.describe(p) + ["race=%d" % p.get("shutdown_race", 0)]


def _outcome(f):
    """the real outcome of a future, read off the object without a visible operation: 0 ok, 1 cancelled, 2 failed, 3 not done"""
    st = getattr(f, "_state", None)
    if st in ("CANCELLED", "CANCELLED_AND_NOTIFIED"):
        return 1
    if st == "FINISHED":
        return 2 if getattr(f, "_exception", None) is not None else 0
    return 3


def _final(obs, quiescent):
    """inside p_c20's final atomic block: when every other thread is blocked for good or finished, the real objects are
    observed - is_shutdown of every executor instance's helper, the state of every future track_future was called on -
    and the observations are replayed on the machine (XObs / FObs); also what the registry holds for the six series"""
    s = det.S
    obs["xg_registry"] = dict((k, v) for (k, v) in obs.get("registry", {}).items() if k[0] in EXEC or k[0] in FUT)
    obs["xg_quiescent"] = bool(quiescent)
    if not quiescent:
        return
    for inst, h in sorted(s.__dict__.get("_xg_helper", {}).items()):
        _emit("x.obs", inst, bool(h.is_shutdown))
    for fid, f in sorted(s.__dict__.get("_xg_obj_fut", {}).items()):
        _emit("f.obs", fid, _outcome(f))


def execute(p, chooser):
    p_c20.FINAL_HOOK = _final
    return p_c20.execute(p, chooser)


def monitor(r, obs):
    """p_c20's monitor, plus: nothing bypassed the observer - for each of the six series the registry holds exactly the sum
    of the updates that were logged (and replayed on the machine)"""
    out = p_c20.monitor(r, obs)
    if r.exc is None and not r.deadlock and not r.hang and "xg_registry" in obs:
        sums = {}
        for (th, op, key, val, ts) in r.log:
            if op == "m.upd":
                sums[tuple(key)] = sums.get(tuple(key), 0) + val[1]
        for k in sorted(set(sums) | set(obs["xg_registry"])):
            if sums.get(k, 0) != obs["xg_registry"].get(k, 0):
                out.append({"what": "series %s holds %s, the logged updates sum to %s" % (k, obs["xg_registry"].get(k, 0), sums.get(k, 0)),
                            "detail": str(obs["params"]), "pattern": "metrics:lockstep-missed-update"})
    return out


def encode(log):
    """projection onto the wire events of Model/ExecGauge.v:
         [0 e] exec_total += 1 / [1 e] exec_inprogress += 1   inside __init__ of instance e
         [2 t e] shutdown() entered  [3 t e] helper answered True  [4 t e] False  [5 t e] exec_inprogress -= 1  [6 t e] shutdown() left
         [10 l f] future_total += 1  [11 l f] future_inprogress += 1      inside track_future(f), series (label) l
         [12 l f] future_inprogress -= 1  [13 l f k] future_cancel (k=1) / future_error (k=2) += 1   inside record_done(f)
         [14 l f k] record_done(f) left, real outcome k (0 ok, 1 cancelled, 2 failed)
         [7 e b] at final quiescence the helper of instance e reads is_shutdown = b   [15 f k] future f is in state k (3: not done)
       An update is attributed to the innermost open bracket (__init__ / shutdown / track_future / record_done) of its
       thread; an update outside the bracket kind it belongs to, of a size other than 1, or under a label other than the
       one its instance / future used before, is reported as unmodelled (fail-closed)."""
    ev, bad = [], []
    th_no, lab_no = {}, {}
    stack = {}                 # thread -> open brackets (kind, id)
    inst_label, fut_label = {}, {}

    def T(name):
        return th_no.setdefault(name, len(th_no))

    def L(lab):
        return lab_no.setdefault(lab, len(lab_no))

    def same_label(table, k, lab):
        return table.setdefault(k, lab) == lab
    for e in log:
        (th, op, obj, val, ts) = e
        if op not in OPS:
            continue
        th, val = "%s#%s" % (th, val[0]), val[1]
        st = stack.setdefault(th, [])
        if op == "x.init":
            st.append(("init", obj))
        elif op == "x.init.end":
            if st and st[-1] == ("init", obj):
                st.pop()
            else:
                bad.append(e)
        elif op == "x.call":
            if obj is None:
                bad.append(e)
                continue
            st.append(("shut", obj))
            ev.append([2, T(th), obj])
        elif op == "x.ret":
            if obj is None or not st or st[-1] != ("shut", obj):
                bad.append(e)
                continue
            st.pop()
            ev.append([6, T(th), obj])
        elif op == "x.ans":
            if obj is None:
                bad.append(e)
                continue
            ev.append([3 if val else 4, T(th), obj])
        elif op == "x.obs":
            ev.append([7, obj, 1 if val else 0])
        elif op == "f.obs":
            ev.append([15, obj, val])
        elif op == "f.track":
            st.append(("track", obj))
        elif op == "f.track.end":
            if st and st[-1] == ("track", obj):
                st.pop()
            else:
                bad.append(e)
        elif op == "f.rec":
            st.append(("rec", obj))
        elif op == "f.rec.end":
            if st and st[-1] == ("rec", obj):
                st.pop()
                ev.append([14, L(fut_label[obj]) if obj in fut_label else 99, obj, val])
            else:
                bad.append(e)
        elif op == "m.upd":
            key, delta = obj, val
            lab = tuple(key[1:])
            top = st[-1] if st else (None, None)
            if key[0] in EXEC:
                what = EXEC[key[0]]
                if abs(delta) != 1 or (what == "x.total" and delta != 1):
                    bad.append(e)
                elif delta == 1 and top[0] == "init" and same_label(inst_label, top[1], lab):
                    ev.append([0 if what == "x.total" else 1, top[1]])
                elif delta == -1 and top[0] == "shut" and same_label(inst_label, top[1], lab):
                    ev.append([5, T(th), top[1]])
                else:
                    bad.append(e)
            else:
                what = FUT[key[0]]
                if abs(delta) != 1 or (what != "f.prog" and delta != 1):
                    bad.append(e)
                elif top[0] == "track" and delta == 1 and what in ("f.total", "f.prog") and same_label(fut_label, top[1], lab):
                    ev.append([10 if what == "f.total" else 11, L(lab), top[1]])
                elif top[0] == "rec" and same_label(fut_label, top[1], lab) and (
                        (what == "f.prog" and delta == -1) or what in ("f.cancel", "f.error")):
                    if what == "f.prog":
                        ev.append([12, L(lab), top[1]])
                    else:
                        ev.append([13, L(lab), top[1], 1 if what == "f.cancel" else 2])
                else:
                    bad.append(e)
    return ev, bad
