"""C07: Throttle -- never more than count in flight, FIFO hand-over, no idle capacity.
Lockstep correspondence with coq/Model/Throttle.v + a monitor deciding the property on the
implementation history itself (virtual timestamps)."""
import throttle_common as tc
LINE_PREEMPT = False     # the Throttle monitor reconstructs queue / counter state from the ADJACENCY of log entries of one thread:
#                          runs with line-level preemption (drive.py) would be misread by it

PROP = "C07"
MACHINE = "throttle"
N_QUICK = 2400
N_THOROUGH = 60000
H = tc.HNAME

setup = tc.setup
gen = tc.gen
execute = tc.execute
encode = tc.encode


class Replay(object):
    """State of the executor reconstructed from the visible operations of the implementation history."""

    def __init__(self, r, obs):
        p = obs["params"]
        self.p = p
        self.dyn = p["count"]["kind"] == "dyn"
        self.last_good = obs["init_last"]
        self.h_val = obs["init_last"]            # value the hand-over thread works with
        self.queue = []
        self.enq_order, self.cancelled_q, self.handed = [], set(), []
        self.inflight = set()
        self.running = 0
        self.shutdown_started = False
        self.in_submit, self.sub_val, self.decision_qlen, self.ctor_j = {}, {}, {}, {}
        self.in_cancel = {}
        self.holds_a = {}
        self.parked = {}                         # thread -> [v, since, room_since]
        self.h_last_eval = 0
        self.h_in_x = False
        self.out = []
        self.throttled_seen = False
        self.park_seen = False
        self.log = r.log

    def flag(self, pattern, what, detail):
        self.out.append({"what": what, "detail": detail, "pattern": pattern})

    def room(self, v):  # v None = unlimited
        return v is None or len(self.queue) < v

    def end_of_instant(self, t_old, t_new):
        """called when virtual time is about to advance from t_old: every thread is blocked"""
        if not self.shutdown_started and self.queue and (self.h_val is None or len(self.inflight) < self.h_val):
            self.flag("throttle:idle-capacity", "queued work not handed over although fewer than count are in flight, at the end of a virtual instant",
                      {"t": t_old, "queue": list(self.queue), "inflight": sorted(self.inflight), "count": self.h_val})
        for th, (v, since, room_since) in self.parked.items():
            if room_since is not None:
                self.flag("throttle:blocked-with-room", "blocking submit() stays parked although the queue holds fewer than count entries",
                          {"thread": th, "count": v, "parked_at": since, "room_at": room_since, "t": t_old, "qlen": len(self.queue)})

    def upd_room(self, ts):
        for th, rec in self.parked.items():
            if self.room(rec[0]):
                if rec[2] is None:
                    rec[2] = ts
            else:
                rec[2] = None

    def decide(self, th):
        """th (inside a blocking submit) has just evaluated `len(queue) < v` after this event"""
        if self.p["block"] and self.in_submit.get(th) and th in self.sub_val:
            self.decision_qlen[th] = len(self.queue)

    def run(self):
        log = self.log
        prev_ts = 0
        for idx, (th, op, obj, val, ts) in enumerate(log):
            if op == "endscen":
                break
            if ts > prev_ts:
                self.end_of_instant(prev_ts, ts)
                prev_ts = ts
            sobj = obj if isinstance(obj, str) else ""
            if op == "call":
                if obj == "submit":
                    self.in_submit[th] = True
                    self.sub_val.pop(th, None)
                    self.decision_qlen.pop(th, None)
                elif obj == "cancel":
                    self.in_cancel[th] = val
                elif obj == "shutdown":
                    self.shutdown_started = True
            elif op == "ret":
                self.in_submit[th] = False
                self.in_cancel.pop(th, None)
                self.ctor_j.pop(th, None)
            elif op == "user:count":
                if val[0] == 0:
                    self.last_good = val[1]
                elif val[0] == 1:
                    self.last_good = None
                if th == H:
                    self.h_val = self.last_good
                    if ts - self.h_last_eval > 30 and not self.shutdown_started:
                        self.flag("throttle:recheck-late", "count callable not re-evaluated within 30 s", {"t": ts, "prev": self.h_last_eval})
                    self.h_last_eval = ts
                elif self.in_submit.get(th):
                    self.sub_val[th] = self.last_good
                    self.decide(th)
            elif op == "acq" and obj == "G" and self.in_submit.get(th):
                if not self.dyn:
                    self.sub_val[th] = self.p["count"]["v"]
                    self.decide(th)
            elif op == "acq" and sobj.startswith("M") and self.in_submit.get(th):
                if th not in self.ctor_j:
                    self.ctor_j[th] = int(obj[1:])
                    q = self.decision_qlen.get(th)
                    v = self.sub_val.get(th)
                    if q is not None and v is not None and not q < v:
                        self.flag("throttle:not-blocked-when-full", "blocking submit() went on although the queue held count entries", {"thread": th, "qlen": q, "count": v})
            elif op == "acq" and obj == "X" and th != H:
                if self.in_submit.get(th):
                    j = self.ctor_j.get(th)
                    self.queue.append(j)
                    self.enq_order.append(j)
                elif th in self.in_cancel:
                    j = self.in_cancel[th]
                    nxt = next((e for e in log[idx + 2:] if e[0] == th), None)     # after its rel X
                    if nxt is not None and nxt[1] == "F.cancel" and nxt[2] == "r%d" % j:
                        if j in self.queue:
                            self.queue.remove(j)
                        else:
                            self.flag("throttle:cancel-ghost", "cancel() succeeded from the queue for a future that was not queued", j)
                        self.cancelled_q.add(j)
                self.upd_room(ts)
            elif obj == "X" and th == H and op in ("acq", "rel"):
                self.h_in_x = (op == "acq")
            elif op == "q.pop":
                if not self.queue:
                    self.flag("throttle:pop-empty", "popleft on an empty reconstructed queue", idx)
                else:
                    self.handed.append(self.queue.pop(0))
                self.upd_room(ts)
            elif op == "acq" and obj == "A":
                self.holds_a[th] = True
                if th == H and self.h_in_x:        # incr happens inside the X-section, inline decr outside
                    self.running += 1
                    if self.h_val is not None and self.running > self.h_val:
                        self.flag("throttle:running-exceeds", "hand-over thread committed to more than count jobs",
                                  {"t": ts, "running": self.running, "count": self.h_val})
                else:
                    self.running -= 1
            elif op == "rel" and obj == "A":
                self.holds_a[th] = False
            elif op == "rc.read" and th == H and not self.holds_a.get(th):
                nxt = next((e for e in log[idx + 1:] if e[0] == th), None)
                if nxt is not None and nxt[1] == "rel" and nxt[2] == "X" and self.queue:
                    self.throttled_seen = True
            elif op == "deleg.submit":
                k, inline = val
                if not inline:
                    self.inflight.add(k)
                if self.h_val is not None and len(self.inflight) > self.h_val:
                    self.flag("throttle:inflight-exceeds", "more than count callables handed to the delegate and not yet done",
                              {"t": ts, "inflight": sorted(self.inflight), "count": self.h_val})
            elif sobj.startswith("d") and ((op in ("F.set_result", "F.set_exception") and val in (0, 1)) or (op == "F.cancel" and val == 0)):
                self.inflight.discard(int(obj[1:]))
            elif op == "ev.wait" and obj == "E" and th != H:
                q, v = self.decision_qlen.get(th), self.sub_val.get(th)
                if q is not None and v is not None and q < v:
                    self.flag("throttle:blocked-not-full", "blocking submit() waits although the queue held fewer than count entries", {"thread": th, "qlen": q, "count": v})
                if val == "block":
                    self.park_seen = True
                    self.parked[th] = [v, ts, None]
                    self.upd_room(ts)
                else:
                    self.decide(th)
            elif op == "ev.woke" and obj == "E" and th != H:
                self.parked.pop(th, None)
                self.decide(th)
        return self.out


def monitor(r, obs):
    if r.deadlock or r.hang:
        return [{"what": "deadlock", "detail": r.deadlock or "hang", "pattern": "throttle:deadlock"}]
    if r.exc is not None:
        return [{"what": "harness-exception", "detail": getattr(r, "tb", repr(r.exc))[-500:], "pattern": "throttle:harness-exc"}]
    out = []
    for (nm, dn, e) in r.threads:
        if e is not None:
            out.append({"what": "thread %s died with %s" % (nm, e), "detail": nm,
                        "pattern": "throttle:thread-died:" + ("handover" if nm == H else "other")})
    rp = Replay(r, obs)
    out += rp.run()
    obs["_replay"] = rp
    # FIFO: the delegate receives the queued jobs in enqueue order minus those cancelled while queued
    sub2fut = dict((i, j) for (i, j, ts) in obs["submit_rets"] if isinstance(j, int))
    delegated = [sub2fut.get(obs["deleg_sub"][k]) for k in sorted(obs["deleg_sub"])]
    expect = [j for j in rp.enq_order if j not in rp.cancelled_q]
    if None not in delegated and delegated != expect[:len(delegated)]:
        out.append({"what": "hand-over order differs from submission order", "detail": {"delegated": delegated, "enqueued": rp.enq_order,
                    "cancelled": sorted(rp.cancelled_q)}, "pattern": "throttle:fifo"})
    if rp.handed[:len(delegated)] != [d for d in delegated] and None not in delegated:
        out.append({"what": "delegate.submit order differs from the order jobs were taken off the queue", "detail": {"popped": rp.handed, "delegated": delegated},
                    "pattern": "throttle:fifo-pop"})
    # submit() must work for every count value (it may only raise after shutdown)
    shut_calls = [e[4] for e in r.log if e[1] == "call" and e[2] == "shutdown"]
    for (i, res, ts) in obs["submit_rets"]:
        if not isinstance(res, int):
            if res == "RuntimeError" and shut_calls and min(shut_calls) <= ts:
                continue
            out.append({"what": "submit() raised %s" % res, "detail": {"submission": i, "t": ts, "count": obs["params"]["count"], "block": obs["params"]["block"]},
                        "pattern": "throttle:submit-raised:" + str(res)})
    return out


def nontrivial(r, obs, events):
    rp = obs.get("_replay")
    if rp is None:
        rp = Replay(r, obs)
        rp.run()
    return r.preempts > 0 and (rp.throttled_seen or rp.park_seen)


def describe(p):
    c = p["count"]
    if c["kind"] == "static":
        ck = "count=static:%s" % c["v"]
    else:
        kinds = set(a[0] for a in c["script"])
        ck = "count=dyn" + ("+raise" if "raise" in kinds else "") + ("+none" if "none" in kinds else "")
    nsub = sum(1 for pr in p["clients"] for op in pr if op[0] == "submit")
    return [ck, "block=%d" % p["block"], "clients=%d" % len(p["clients"]), "subs=%d" % nsub,
            "cancels=%d" % min(len(p["cancels"]), 3), "shutdown=%d" % any(op[0] == "shutdown" for pr in p["clients"] for op in pr),
            "sync=%d" % any(e["sync"] for e in p["env"]), "tail=%d" % p["tail"]]


def extra(stats, tier, seed):
    """Directed: the caller's own (slow) done-callback on a throttled future.  When a delegate future finishes, its slot is free at once: the next
    queued callable is handed over while the caller's callback on the finished future is still running, not after it."""
    import drive
    import detsched as det
    from lib import Manual
    from more_executors._impl.throttle import ThrottleExecutor
    known_patterns = set(k["pattern"] for k in drive.load_known(PROP))

    def viol(what, pattern, detail=None):
        v = {"what": what, "pattern": pattern, "detail": detail, "case": {"params": {}, "chooser": "none", "cseed": 0, "origin": "directed"}}
        if pattern in known_patterns:
            stats.known.setdefault(pattern, v)
        else:
            stats.violations.append(v)
    for trial in range(9 if tier == "quick" else 150):
        count = 1 + trial % 2
        res = {}

        def main(count=count, res=res):
            m = Manual()
            with det.atomic():
                ex = ThrottleExecutor(m, count)
            futs = [ex.submit(lambda: 1) for _ in range(count + 1)]      # one more than fits: the last one waits in the queue
            det.wait_until(lambda: len(m.fs) >= count)
            slow = {"t0": None, "t1": None}

            def cb(f):
                slow["t0"] = det.S.now
                det.sleep(5)                                               # a slow callback of the CALLER
                slow["t1"] = det.S.now
            futs[0].add_done_callback(cb)
            # the hand-over of the first batch must be OVER (virtual time only advances when every thread is parked): a delegate future that
            # finishes while `_do_submit` is still wiring it up has its callbacks - the caller's included - run by the hand-over thread itself
            det.sleep(1)
            t_done = det.S.now

            def env():
                f0 = m.fs[0][0]
                f0.set_running_or_notify_cancel()
                f0.set_result(1)
            e = det.spawn("e0", env)
            det.wait_until(lambda: len(m.fs) >= count + 1 or det.S.now > t_done + 100)
            res["handed_at"] = det.S.now if len(m.fs) >= count + 1 else None
            res["done_at"] = t_done
            e.join()
            res["cb"] = dict(slow)
            ex.shutdown(False)
        r = det.run(det.make_chooser(("random", "sticky", "pct")[trial % 3], seed * 17 + trial), main)
        stats.add([[7, 7, count, trial % 3]], True, None, ["directed:slow-user-callback"])
        if r.exc is not None or r.deadlock or r.hang:
            viol("slow user callback scenario: %s" % (("deadlock %s" % (r.deadlock,)) if (r.deadlock or r.hang) else getattr(r, "tb", "")[-300:]),
                 "throttle:deadlock", count)
            continue
        if res.get("handed_at") is None or res["handed_at"] > res["done_at"] + 1:
            viol("count=%d: a delegate future finished at t=%s while a callable was queued, but the hand-over came at t=%s - only after the caller's "
                 "5 s done-callback on the finished future had returned (%s)" % (count, res.get("done_at"), res.get("handed_at"), res.get("cb")),
                 "throttle:idle-capacity", count)
