"""C17: f_proxy transparency and f_nocancel -- differential of Python operators applied to the proxy
vs. to the plain value, across builtin operand types and future states, under the scheduler
(a non-forwarded operation that blocks on a pending future shows up as a deadlock)."""
import random, math, operator
import detsched as det
import lib
from concurrent.futures import Future

PROP = "C17"
MACHINE = None
N_QUICK = 1500
N_THOROUGH = 40000

VALUES = [0, 1, -3, 7, 2.5, -0.0, True, "abc", "", b"xy", [1, 2, 3], [], (1, 2), {"a": 1}, {1, 2}, None, 3 + 4j, range(3), 10 ** 20]
OTHERS = [0, 1, 2, -2, 2.0, 0.5, "b", [9], (3,), None, 3, 1j, {"a"}, b"z"]
BIN = [("+", operator.add), ("-", operator.sub), ("*", operator.mul), ("/", operator.truediv), ("//", operator.floordiv),
       ("%", operator.mod), ("divmod", divmod), ("**", operator.pow), ("<<", operator.lshift), (">>", operator.rshift),
       ("&", operator.and_), ("^", operator.xor), ("|", operator.or_), ("getitem", operator.getitem),
       ("contains", lambda a, b: b in a)]
UN = [("neg", operator.neg), ("pos", operator.pos), ("abs", abs), ("invert", operator.invert), ("complex", complex),
      ("int", int), ("float", float), ("round", round), ("trunc", math.trunc), ("floor", math.floor), ("ceil", math.ceil),
      ("len", len), ("iter", lambda a: list(iter(a))), ("round2", lambda a: round(a, 1)), ("pow3", lambda a: pow(a, 2, 5)),
      ("attr_upper", lambda a: a.upper()), ("attr_real", lambda a: a.real), ("setitem", lambda a: (operator.setitem(a, 0, 9), a[0])[1]),
      ("delitem", lambda a: (operator.delitem(a, 0), len(a))[1])]
NONFWD = [("bool", bool), ("repr", lambda p: isinstance(repr(p), str)), ("str", lambda p: isinstance(str(p), str)),
          ("eq", lambda p: (p == 1, p != 1)[0] in (True, False)), ("hash", lambda p: isinstance(hash(p), int)),
          ("dunder", lambda p: _attr_error(p))]


def _attr_error(p):
    try:
        p.__wrapped_something__
    except AttributeError:
        return True
    return False


def gen(rng):
    kind = rng.choice(["bin", "bin", "un", "un", "nonfwd", "nocancel", "timeout", "chain", "attrseq", "nested_timeout"])
    p = {"kind": kind, "state": rng.choice(["resolved", "resolved", "pending", "failed"]), "vi": rng.randrange(len(VALUES))}
    if kind == "bin":
        p["op"] = rng.randrange(len(BIN))
        p["oi"] = rng.randrange(len(OTHERS))
    elif kind == "un":
        p["op"] = rng.randrange(len(UN))
    elif kind == "nonfwd":
        p["op"] = rng.randrange(len(NONFWD))
        p["state"] = "pending"
    elif kind == "chain":
        # wrappers stacked on f WHILE another thread resolves it: f_proxy(f_nocancel(f_map(f))) ... then a forwarded operation
        p["wrappers"] = [rng.choice(["nocancel", "map", "proxy"]) for _ in range(rng.randint(1, 3))]
        p["op"] = rng.randrange(len(BIN))
        p["oi"] = rng.randrange(len(OTHERS))
        p["state"] = rng.choice(["pending", "pending", "failed"])
    elif kind == "timeout":
        p["t"] = rng.choice([0, 0.0, 1, 2, 3, 5])
    elif kind == "attrseq":
        # a multi-step use of ONE proxy: attribute reads (plain attribute, computed property, method) interleaved with
        # changes made to the underlying object: every read must see what the object says NOW
        p["steps"] = [rng.choice(["get_x", "get_prop", "call_m", "set_x", "set_y", "del_x"]) for _ in range(rng.randint(2, 6))]
        p["state"] = rng.choice(["resolved", "pending"])
    elif kind == "nested_timeout":
        # f_proxy applied to something that is a proxy / wrapper already, each with its own timeout
        p["inner"] = rng.choice(["proxy", "proxy", "nocancel", "map"])
        p["t_in"] = rng.choice([None, 50, 7])
        p["t"] = rng.choice([0, 1, 2, 3])
    elif kind == "nocancel":
        # state of the input when it is wrapped: pending (finishes later), or already resolved / failed / cancelled by its owner
        p["pre"] = rng.choice(["pending", "pending", "resolved", "failed", "cancelled"])
    return p


def outcome(fn):
    try:
        return ("v", fn())
    except BaseException as e:
        if isinstance(e, det.Abort):
            raise
        return ("e", type(e).__name__)


def veq(a, b):
    if a[0] != b[0]:
        return False
    if a[0] == "e":
        return a[1] == b[1]
    x, y = a[1], b[1]
    if type(x) is not type(y):
        return False
    if isinstance(x, float) and x != x:
        return y != y
    return x == y


def execute(p, chooser):
    import copy
    from more_executors.futures import f_proxy, f_nocancel, f_return
    obs = {"params": p, "res": None}

    def main():
        det.emit("case", None, sorted(p.items()))
        v = copy.deepcopy(VALUES[p["vi"]])
        v2 = copy.deepcopy(VALUES[p["vi"]])
        with det.atomic():
            f = Future()
        exc = KeyError("boom")
        kind = p["kind"]

        def resolve():
            if p["state"] == "failed":
                f.set_exception(exc)
            else:
                f.set_result(v)

        if kind == "chain":
            from more_executors.futures import f_map
            env = det.spawn("e0", resolve)
            g = f
            for w in p["wrappers"]:
                g = f_nocancel(g) if w == "nocancel" else f_map(g, lambda x: x) if w == "map" else f_proxy(g)
            px = f_proxy(g, timeout=50)
            name, fn = BIN[p["op"]]
            o = OTHERS[p["oi"]]
            got = outcome(lambda: fn(px, o))
            env.join()
            want = ("e", "KeyError") if p["state"] == "failed" else outcome(lambda: fn(v2, o))
            obs["res"] = ("op", "chain:" + name, got, want)
            return
        if kind == "attrseq":
            class Box(object):
                def __init__(self):
                    self.x = 1
                    self.y = 10

                @property
                def prop(self):
                    return (self.__dict__.get("x"), self.y)

                def m(self):
                    return ("m", self.__dict__.get("x"), self.y)
            real, ref = Box(), Box()
            if p["state"] == "resolved":
                with det.atomic():
                    f.set_result(real)
                env = None
            else:
                env = det.spawn("e0", lambda: f.set_result(real))
            px = f_proxy(f, timeout=50)
            got, want = [], []
            for k, st in enumerate(p["steps"]):
                for tgt, acc, obj in ((px, got, real), (ref, want, ref)):
                    if st == "get_x":
                        acc.append(outcome(lambda: tgt.x))
                    elif st == "get_prop":
                        acc.append(outcome(lambda: tgt.prop))
                    elif st == "call_m":
                        acc.append(outcome(lambda: tgt.m()))
                    elif st == "set_x":
                        obj.x = 100 + k          # the owner of the object changes it (not through the proxy)
                    elif st == "set_y":
                        obj.y = 200 + k
                    elif st == "del_x":
                        obj.__dict__.pop("x", None)
            if env:
                env.join()
            obs["res"] = ("op", "attrseq:" + ",".join(p["steps"]), ("v", got), ("v", want))
            return
        if kind == "nested_timeout":
            from more_executors.futures import f_map
            kw = {} if p["t_in"] is None else {"timeout": p["t_in"]}
            inner = f_proxy(f, **kw) if p["inner"] == "proxy" else f_nocancel(f) if p["inner"] == "nocancel" else f_map(f, lambda x: x)
            px = f_proxy(inner, timeout=p["t"])
            t0 = det.now()
            r = outcome(lambda: px + 1)
            obs["res"] = ("timeout", r, det.now() - t0)
            return
        if kind == "timeout":
            px = f_proxy(f, timeout=p["t"])
            t0 = det.now()
            r = outcome(lambda: px + 1)
            obs["res"] = ("timeout", r, det.now() - t0)
            return
        if kind == "nocancel" and p.get("pre", "pending") != "pending":
            with det.atomic():
                if p["pre"] == "cancelled":
                    f.cancel()
                elif p["pre"] == "failed":
                    f.set_exception(exc)
                else:
                    f.set_result(v)
            nc = f_nocancel(f)
            c = nc.cancel()
            obs["res"] = ("nocancel-pre", p["pre"], c, nc is f, nc.cancelled(), f._state, nc._state,
                          nc._exception if p["pre"] == "failed" else nc._result, v, exc)
            return
        if kind == "nocancel":
            nc = f_nocancel(f)
            c = nc.cancel()
            env = det.spawn("e0", resolve)
            env.join()
            det.wait_until(lambda: nc._state == "FINISHED" or f._state != "FINISHED")
            obs["res"] = ("nocancel", c, f._state, nc._state, nc._result if p["state"] != "failed" else nc._exception, v, exc)
            return
        if kind in ("bin", "un") and p["state"] == "failed" and (p["vi"] + p["op"]) % 3 == 0:
            # the edge ProxyFuture.__getattr__ comments on: the future failed with an AttributeError, which Python takes for a failed
            # lookup of the `__result` property (Props/C17_more.v: c17_result_property_one_call)
            exc = AttributeError("boom")
        if p["state"] != "pending":
            with det.atomic():
                resolve()
        px = f_proxy(f)
        # ghost log of Model/Proxy2.v made real: every self.result(timeout) call of the proxy, with the timeout it was given
        # (an instance attribute shadows the class's method for `self.result(...)`; nothing else about the proxy changes)
        calls = []
        inner_result = px.result

        def counted_result(timeout=None):
            calls.append(timeout)
            return inner_result(timeout)
        px.result = counted_result
        if kind == "nonfwd":
            name, fn = NONFWD[p["op"]]
            r = outcome(lambda: fn(px))
            obs["res"] = ("nonfwd", name, r, f._state)
            obs["calls"] = (name, list(calls), (0, 0))
            return
        if kind == "bin":
            name, fn = BIN[p["op"]]
            o = OTHERS[p["oi"]]
            call = lambda a: fn(a, o)
        else:
            name, fn = UN[p["op"]]
            call = fn
        env = None
        if p["state"] == "pending":
            env = det.spawn("e0", resolve)
        got = outcome(lambda: call(px))
        if env:
            env.join()
        want = ("e", type(exc).__name__) if p["state"] == "failed" else outcome(lambda: call(v2))
        obs["res"] = ("op", name, got, want)
        # one forwarded operation = exactly one result() call (the two-step probes setitem / delitem perform a second operation
        # when the first one went through)
        obs["calls"] = (name, list(calls), (1, 2) if name in ("setitem", "delitem") and p["state"] != "failed" else (1, 1))

    r = det.run(chooser, main)
    return r, obs


def encode(log):
    import zlib
    for (th, op, obj, val, ts) in log:
        if op == "case":
            return [[zlib.crc32(repr(val).encode()) & 0xffffff, len(log)]], []
    return [[len(log)]], []


def monitor(r, obs):
    out = []
    p = obs["params"]
    if r.deadlock or r.hang:
        return [{"what": "operation blocked for ever (%s on a %s future)" % (p["kind"], p["state"]), "detail": str(p), "pattern": "proxy:blocked:" + p["kind"]}]
    if r.exc is not None:
        return [{"what": "harness-exception", "detail": getattr(r, "tb", repr(r.exc))[-500:], "pattern": "proxy:harness-exc"}]
    res = obs["res"]
    if res is None:
        return out
    if obs.get("calls") is not None:
        from more_executors._impl.common import MAX_TIMEOUT
        cname, calls, (lo, hi) = obs["calls"]
        if not (lo <= len(calls) <= hi) or any(c != MAX_TIMEOUT or type(c) is not type(MAX_TIMEOUT) for c in calls):
            out.append({"what": "%s on the proxy made %d result() call(s) with timeouts %r (expected %d..%d with the configured timeout)"
                                % (cname, len(calls), calls, lo, hi), "detail": str(p), "pattern": "proxy:resolutions:" + cname})
    if res[0] == "op":
        _, name, got, want = res
        if not veq(got, want):
            out.append({"what": "%s on the proxy gives %r, on the value %r" % (name, got, want), "detail": str(p), "pattern": "proxy:not-transparent:" + name})
    elif res[0] == "nonfwd":
        _, name, rr, st = res
        if rr != ("v", True) or st != "PENDING":
            out.append({"what": "%s on a pending proxy gave %r (future state %s)" % (name, rr, st), "detail": str(p), "pattern": "proxy:nonfwd:" + name})
    elif res[0] == "timeout":
        _, rr, dt = res
        if rr != ("e", "TimeoutError") or dt != p["t"]:
            out.append({"what": "pending proxy with timeout %s: %r after %s" % (p["t"], rr, dt), "detail": str(p), "pattern": "proxy:timeout"})
    elif res[0] == "nocancel-pre":
        _, pre, c, same, ncc, fst, ncst, val, v, exc = res
        ok = c is False and not same and not ncc
        if pre == "resolved":
            ok = ok and ncst == "FINISHED" and (val is v or val == v)
        elif pre == "failed":
            ok = ok and ncst == "FINISHED" and val is exc
        if not ok:
            out.append({"what": "f_nocancel of an already %s future: cancel()=%r, same object=%r, cancelled()=%r, wrapper %s"
                                % (pre, c, same, ncc, ncst), "detail": str(p), "pattern": "nocancel:shield-pre"})
    elif res[0] == "nocancel":
        _, c, fst, ncst, val, v, exc = res
        ok = c is False and fst == "FINISHED" and ncst == "FINISHED" and (val is exc if p["state"] == "failed" else (val is v or val == v))
        if not ok:
            out.append({"what": "f_nocancel: cancel()=%r, input %s, wrapper %s" % (c, fst, ncst), "detail": str(p), "pattern": "nocancel:shield"})
    return out


def nontrivial(r, obs, events):
    return obs["params"]["state"] == "pending" or obs["params"]["kind"] in ("bin", "un")


def describe(p):
    return ["kind=" + p["kind"], "state=" + p["state"]]



def extra(stats, tier, seed):
    """API-level: a wrapper nobody holds.  `f_nocancel(f).add_done_callback(cb)` / `f_proxy(f).add_done_callback(cb)` without keeping the wrapper: it still
    mirrors f's outcome and the callback fires (the input keeps the wrapper alive through its callback list)."""
    import gc
    import drive
    from more_executors.futures import f_proxy, f_nocancel
    known_patterns = set(k["pattern"] for k in drive.load_known(PROP))

    def viol(what, pattern, detail=None):
        v = {"what": what, "pattern": pattern, "detail": detail, "case": {"params": {}, "chooser": "none", "cseed": 0, "origin": "api"}}
        if pattern in known_patterns:
            stats.known.setdefault(pattern, v)
        else:
            stats.violations.append(v)
    makers = [("f_nocancel", f_nocancel), ("f_proxy", f_proxy), ("f_proxy(f_nocancel)", lambda f: f_proxy(f_nocancel(f))),
              ("f_nocancel(f_proxy)", lambda f: f_nocancel(f_proxy(f)))]
    with det.atomic():
        for nm, mk in makers:
            for outcome in ("value", "error"):
                f = Future()
                got = []
                mk(f).add_done_callback(lambda w: got.append((w._state, w._exception, w._result)))
                gc.collect()
                err = KeyError("boom")
                if outcome == "value":
                    f.set_result({"key": "v"})
                else:
                    f.set_exception(err)
                stats.add([[17, 12, len(nm), len(outcome)]], True, None, ["api:dropped-wrapper"])
                want = ("FINISHED", None, {"key": "v"}) if outcome == "value" else ("FINISHED", err, None)
                if got != [want]:
                    viol("%s(f).add_done_callback(cb) with no reference kept to the wrapper: f finished with a %s, the callback saw %r" % (nm, outcome, got),
                         "proxy:dropped-wrapper-lost" if not got else "proxy:dropped-wrapper-wrong", nm)
