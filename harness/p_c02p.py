"""C02 (PollFuture): the Future protocol on poll futures - user done-callbacks run exactly once each, only
when the future is done and all see the final outcome; cancel() answers a bool; the outcome never changes -
under yields (first, repeated, late), raising polls, delegate failures and concurrent cancels.
Scenario family of C08 plus 1-3 user callbacks per future; monitor only (Model/Poll.v has no user callbacks)."""
import zlib
import poll_common as pc

PROP = "C02"
MACHINE = None
N_QUICK = 1500
N_THOROUGH = 60000
DONE = pc.DONE


def gen(rng):
    p = pc.gen(rng, faults=True)
    p["cbs"] = {str(i): rng.randint(1, 3) for i in range(len(p["subs"]))}
    return p


setup = pc.setup
execute = pc.execute


def encode(log):
    return [[zlib.crc32(repr([(th, op, str(obj), str(val)) for (th, op, obj, val, ts) in log]).encode()) & 0xffffff, len(log)]], []


def monitor(r, obs):
    if r.deadlock or r.hang:
        return [{"what": "deadlock %s" % (r.deadlock,), "detail": None, "pattern": "proto:deadlock"}]
    if r.exc is not None:
        return [{"what": "harness-exception", "detail": getattr(r, "tb", repr(r.exc))[-600:], "pattern": "proto:harness-exc"}]
    out = []
    for (nm, dn, e) in r.threads:
        if e is not None:
            out.append({"what": "thread %s died with %s" % (nm, e), "detail": nm, "pattern": "proto:thread-died"})
    p = obs["params"]
    for j, (i, f) in obs["futs"].items():
        final = obs["outs"][j]
        calls = obs.get("cb_calls", {}).get(j, [])
        ids = sorted(c for (c, st, res, exc, th) in calls)
        want = list(range(p["cbs"].get(str(i), 0)))
        if final[0] != "pending":
            if ids != want:
                out.append({"what": "callbacks ran %s (threads %s), registered %s" % (ids, sorted(set(c[4] for c in calls)), want),
                            "detail": j, "pattern": "proto:callback-count"})
        elif ids:
            out.append({"what": "callbacks %s ran on a future that never finished" % ids, "detail": j, "pattern": "proto:callback-early"})
        for (c, st, res, exc, th) in calls:
            if st not in DONE:
                out.append({"what": "callback %d ran while the future was %s" % (c, st), "detail": j, "pattern": "proto:callback-early"})
                continue
            seen = ("cancelled",) if st != "FINISHED" else (("err", exc) if exc is not None else ("ok", res))
            if seen[0] != final[0] or (seen[0] == "err" and seen[1] is not final[1]) or (seen[0] == "ok" and seen[1] != final[1]):
                out.append({"what": "a callback saw outcome %r, the final outcome is %r" % (seen, final), "detail": j, "pattern": "proto:outcome-changed"})
        for (jj, ret, pos) in obs["cancel_rets"]:
            if jj == j and ret is True and final != ("cancelled",):
                out.append({"what": "cancel() returned True but the future ended %r" % (final[0],), "detail": j, "pattern": "proto:cancel-true-not-cancelled"})
    return out


def nontrivial(r, obs, events):
    return bool(obs.get("cb_calls")) and r.preempts > 0


def describe(p):
    return ["subs=%d" % len(p["subs"]), "cancels=%d" % sum(1 for o in p["ops"] if o["op"] == "cancel"),
            "cbs=%d" % sum(p["cbs"].values())]
