"""Per-property configuration of bin/check."""

HARNESS_TIMEOUT = {"quick": 900, "thorough": 6 * 3600}

TRUSTED_BASE = [
    "Coq 8.16.1 kernel (coqc), including vm_compute for witnesses/Examples/finite tables; no native_compute",
    "no Axiom/Parameter/Admitted in the development (grep-checked on every run); stdlib axioms only if listed by Print Assumptions below",
    "translator tools/pyk2coq.py (python ast -> Gallina for the decision kernels in coq/Gen) and tools/srcfacts.py (normal-form digests of every modelled definition)",
    "translators of whole concurrent methods into small IRs, with their vocabulary tables and whitelists of dropped statements (printed in the generated files), and the IR semantics they are run on: tools/skel2coq.py + Model/CosIR.v / GateIR.v (C10, C11), tools/comb2coq.py + Model/CombIR.v (C14, C15), tools/loop2coq.py + Model/LoopIR.v (C03), the second proxy kernel + Model/Proxy2.v (C17)",
    "extraction with ExtrOcamlBasic only (bool, option, unit, list, prod, sumbool, sumor, andb, orb); nat/positive/Z/Q stay extracted datatypes; coq/Extract/driver.ml",
    "correspondence harness harness/detsched.py (baton scheduler, virtual clock, patched threading primitives and stdlib Future methods), harness/drive.py and the property's adapter/monitor",
    "modelled, not verified: CPython (GIL atomicity of single container operations), threading, concurrent.futures.Future (Base/Fut.v), logging",
]

COMMON_ASSUMPTIONS = [
    "preemption only at visible operations (lock/event/thread/Future-method/user-code boundaries); thread-local code between them commutes",
    "the theorems speak about the Coq model; the tie to /repo is the regenerated kernels plus the sampled trace correspondence of this run",
]

CHECKS = {
    "C10": {
        "extra_props": ["Props/C10_src.v", "Props/C10_ir.v"],
        "module": "p_c10",
        "rule": "seeded random scenarios (1-4 submitter threads x 1-3 submits, 1-2 shutdown calls, optional second shutdown thread, "
                "environment completing delegate futures, late submit) x {random, sticky, PCT} schedules; every implementation "
                "history is replayed event by event on Model/Cos.v (extracted); distinct = distinct event traces; non-trivial = "
                "a submit() call overlaps a shutdown() call",
        "assumptions": ["delegate executor and completion of its futures are environment (scripted Manual executor)"],
    },
    "C05": {
        "extra_props": ["Props/C05_machine.v", "Props/C05_src.v", "Props/C05_ir.v"],
        "module": "p_c05",
        "gen_lemmas": ["sleep_time_spec", "should_retry_spec", "exception_policy_runs", "get_next_job_spec"],
        "rule": "seeded random scenarios (1-3 submissions from 1-2 client threads, outcome scripts per attempt, "
                "ExceptionRetryPolicy with random integer parameters or a scripted policy incl. raising answers, "
                "inline/sync and asynchronous delegates completed by 1-2 environment threads with virtual delays, "
                "done-callbacks added before/after completion) x {random, sticky, PCT} schedules; every implementation "
                "history is replayed event by event on Model/Retry.v (extracted); plus a differential of the regenerated "
                "kernels should_retry/sleep_time/_get_next_job against the Python functions; distinct = distinct event "
                "traces; non-trivial = at least one retry was granted and a preemption occurred",
        "assumptions": ["delegate executor, callable outcomes, policy answers and the clock are environment",
                        "integer-valued delays in the lockstep histories; dyadic rationals in the kernel differential"],
    },
    "C06": {
        "extra_props": ["Props/C06_machine.v", "Props/MapFut_E.v", "Props/C06_src.v", "Props/MapFut_E2.v", "Props/Comb_G.v", "Props/C07_more.v"],
        "modules": ["p_c06r", "p_c06m", "p_c06p", "p_c06z", "p_c06b", "p_c06t"],
        "rule": "p_c06t: the Throttle lockstep family (C07) with the cancel verdicts (a queued future whose cancel() returned True is never handed over); p_c06p / p_c06z / p_c06b: the lockstep families of C08 (cancel() of poll futures: cancel function, veto, deregistration), C15 and C14 (cancelling the output of f_zip / f_or / f_and with inputs pending, running, done, duplicated) with the cancel-related verdicts of their monitors; retry: seeded scenarios as C05 plus 0-2 cancel() calls per future at random virtual delays / after k delegate "
                "submissions, from separate threads; every history replayed on Model/Retry.v; distinct = distinct event traces; "
                "non-trivial = a cancel() call was issued and a preemption occurred",
        "assumptions": ["delegate executor, callable outcomes, policy answers and the clock are environment"],
    },
    "C13": {
        "extra_props": ["Props/MapFut_D.v", "Props/C13_src.v", "Props/C13_ir.v"],
        "modules": ["p_c13", "p_c13x"],
        "gen_lemmas": [],
        "rule": "p_c13x: linear chains of 1-3 map / flat_map stages (f_* form or executor form) over one input that is a plain future or an f_proxy / f_nocancel / f_map of it, "
                "fn / error_fn scripted per stage (return, raise, re-raise the same, return a done / failed / pending future, return a non-future), optional cancel of the output from "
                "another thread; monitor only: output = the sequential meaning of the chain with exception identity, call counts, cancel-True-means-cancelled, no deadlock; "
                "p_c13: seeded scenarios: 1-3 MapFuture/FlatMapFuture objects built directly over 2-5 environment futures (shared delegates "
                "allowed; delegates already done, finishing later with value/exception from 1-2 environment threads, cancelled, or never), "
                "fn/error_fn answers scripted (return, raise new, re-raise same, return a future in any state, return a non-future), "
                "done-callbacks before/after completion, 0-2 cancel() calls; x {random, sticky, PCT} schedules; each history replayed on "
                "Model/MapFut.v; monitor = the sequential law (outcome with exception identity, call counts, arguments); "
                "non-trivial = a user function ran and a preemption occurred",
        "assumptions": ["delegate futures are plain stdlib futures driven by the environment; chains longer than one level are covered by the pure law (vchain_compose) and the whole-stack differential of C01"],
    },
    "C14": {
        "extra_props": ["Props/Comb_F.v", "Props/C14_src.v", "Props/C14_ir.v"],
        "modules": ["p_c14"],
        "gen_lemmas": ["or_update_spec", "and_update_spec"],
        "rule": "seeded scenarios: f_or/f_and over 2-5 input positions drawn from 2-5 environment futures (duplicates, inputs already done, "
                "truthy/falsy values of several types, exceptions, cancelled, never finishing), 1-3 environment threads completing inputs, "
                "0-2 cancels of the output; x {random, sticky, PCT} schedules; each history replayed on Model/Comb.v; monitor = output equals "
                "the fold over SOME linearisation of the completions consistent with real-time order, and no input stays pending once the "
                "output is done; non-trivial = completions from >= 2 threads with a preemption",
        "assumptions": ["inputs are plain stdlib futures driven by the environment; inputs that were already done at call time count as finishing at registration, in argument order"],
    },
    "C15": {
        "extra_props": ["Props/Comb_F.v", "Props/C15_src.v", "Props/C15_ir.v"],
        "modules": ["p_c15"],
        "gen_lemmas": ["zip_update_spec", "tuple_classes_20"],
        "rule": "as C14 for f_zip (positions, duplicates, first failure / first cancellation, output cancel fan-out), replayed on Model/Comb.v; "
                "plus API-level checks of sizes 0/1/2/19/20/21/300/random with shuffled completion order, f_sequence, f_traverse call order "
                "and fault propagation",
        "assumptions": ["inputs are plain stdlib futures driven by the environment"],
    },
    "C16": {
        "extra_props": ["Props/C16_src.v"],
        "modules": ["p_c16", "p_c16m"],
        "gen_lemmas": ["runner_insert_at = 0", "apply_recurses_on_tail"],
        "rule": "p_c16m: the MapFuture / FlatMapFuture lockstep family (C13) underneath f_apply; seeded scenarios: f_apply with 0-4 positional x 0-3 keyword argument futures, each already done or completed later by 1-3 "
                "environment threads in a random order, one failing input at any position (incl. the function future) or none, a function "
                "that records its arguments (non-commutative) and may raise; x {random, sticky, PCT} schedules; monitor: one call, after all "
                "inputs resolved, arguments in place, failure identity; non-trivial = >= 2 arguments and a preemption",
        "assumptions": ["the currying construction is modelled as a pure function (Model/Apply.v); the flat_map/map plumbing underneath is C13's"],
    },
    "C17": {   'assumptions': ["Python's operator dispatch is modelled without subclass priority of the right operand; semantics of the builtin types themselves are not modelled (sampled differentially)"],
        'extra_props': ['Props/C17_src.v', 'Props/C17_more.v', 'Props/C17_nocancel.v'],
        'gen_lemmas': [   'proxy_table (33 entries) all in transparent form',
                          'NoCancelFuture.cancel = False',
                          "Proxy2Gen: f_proxy's timeout expression maps timeout=0 to 0 and an absent keyword to MAX_TIMEOUT; __result passes the configured timeout",
                          'Proxy2Gen: every one of the 33 regenerated method bodies has one of ten shapes and agrees with proxy_table; exactly __bool__ / __nonzero__ do not resolve',
                          'Proxy2Gen: __getattr__ statement list; class / instance attribute names; no reflected dunder in the table',
                          'Proxy2Gen: NoCancelFuture.cancel body = return False, map function = identity, no error function'],
        'modules': ['p_c17', 'p_c17m'],
        'rule': 'p_c17m: the MapFuture protocol underneath ProxyFuture / NoCancelFuture in lockstep with Model/MapFut.v (family of C02/C13); p_c17 also stacks wrappers on a future while another thread '
                'resolves it, timeouts 0 / 0.0, inputs already resolved / failed / cancelled at wrap time; seeded cases: 15 binary and 19 unary/builtin/attribute operations x 19 result values of builtin '
                'types x 14 operands x future state {resolved, failed, pending then resolved from another thread}; non-forwarded operations (bool, repr, str, ==, hash, unknown dunder) on a pending '
                'future; timeout on a never-resolved future (virtual time); f_nocancel shielding; monitor: same value and type, or same exception type, as the operation on the plain value; a blocked '
                'operation is a deadlock; the ghost log of Model/Proxy2.v made real: every self.result(timeout) call of the proxy is recorded - exactly one per forwarded operation, with the configured '
                'timeout, none for bool / repr / str / == / hash / unknown dunder (pattern proxy:resolutions:<op>); futures failed with an AttributeError (the __getattr__ edge)'},
    "C19": {
        "extra_props": ["Props/C19_src.v"],
        "modules": ["p_c19"],
        "gen_lemmas": ["_customize / bind / flat_bind shapes", "every with_* propagates the name", "BoundCallable carries the executor's name"],
        "rule": "seeded paired programs: random chains (0-2 layers before bind, 0-3 after; map, flat_map, retry, throttle, timeout, "
                "cancel_on_shutdown, poll; explicit/implicit names) over sync or the real ThreadPoolExecutor (run under the scheduler), callable "
                "kinds {function, partial, callable object, future-returning via flat_bind}, 0-2 arguments, failing attempts; bind form vs. "
                "submit form must give equal outcomes and invocation logs; names of the threads created by every layer compared with the "
                "inheritance rule; non-trivial = at least one layer chained after bind",
        "assumptions": ["executor stacks are modelled as layer lists (Model/Bind.v); behaviour of each layer is the other properties' business"],
    },
    "C01": {
        "extra_props": ["Props/C01_link.v", "Props/C01_src.v"],
        "modules": ["p_c01", "p_c01r", "p_c01m", "p_c01p", "p_c01x"],
        "rule": "p_c01x: the chains of p_c13x (stages over plain and library-future inputs, callbacks on intermediate futures) with the own-outcome verdicts; p_c01r / p_c01m / p_c01p: the single-layer lockstep families of C05, C13, C08 with the own-outcome verdicts of their monitors; seeded random stacks: depth 1-6 over {map, flat_map, poll, retry, throttle, timeout, cancel_on_shutdown} in any order, "
                "base sync or the real ThreadPoolExecutor (1-3 workers) run under the scheduler, 1-4 submissions from 1-3 client threads, "
                "per-invocation outcome scripts for the callable, raising map/flat_map functions; x {random, sticky, PCT} schedules; each "
                "submission's outcome (value / exception identity), invocation count and arguments compared with Stack.seq_eval evaluated by "
                "the extracted Coq model; non-trivial = >= 2 submissions, >= 2 layers and a preemption",
        "assumptions": ["PARTIAL: refinement of seq_eval by the composed implementation is validated by this differential, proved only per layer"],
    },
    "C11": {
        "extra_props": ["Props/C11_Chain.v", "Props/C11_src.v", "Props/C11_ir.v"],
        "modules": ["p_c11", "p_c11g", "p_c11c"],
        "rule": "p_c11c: the shutdown chain as a machine (Model/Chain.v): random stacks as p_c11 plus users shutting down inner layers, callables calling back into submit/shutdown, worker-thread delegate submissions; every history is projected to per-layer shutdown/submit calls, gate operations and worker exits and replayed on the extracted machine; p_c11g: helpers.ShutdownHelper in lockstep with Model/Gate.v, 2-4 threads x 1-3 calls of helper() / ensure_alive(); p_c11: seeded scenarios on real stacks: depth 1-4 over the seven layer kinds, base sync or the real ThreadPoolExecutor, workload "
                "idle/quick/failing (sleeping between retries)/blocked callables/polling, shutdown(wait True/False, with/without "
                "cancel_futures) after a virtual delay, 0-2 submitters racing with it, 0-2 further threads calling shutdown() concurrently, a second shutdown, a submit afterwards; every "
                "layer's shutdown() is wrapped to record calls and arguments; x {random, sticky, PCT} schedules; monitor: error message, "
                "exactly-once propagation with the same arguments, idempotence, worker threads exited when shutdown(wait=True) returns, "
                "no hang; non-trivial = some workload and a preemption",
        "assumptions": ["PARTIAL: cross-layer propagation/joining is decided by the monitor on explored schedules; the gate protocol is proved for any number of threads"],
    },
    "C04": {
        "extra_props": ["Props/C04_retry.v", "Props/C04_poll.v", "Props/C04_throttle.v", "Props/C04_timeout.v", "Props/C04_src.v", "Props/C04_layers.v"],
        "modules": ["p_c04", "p_c04s", "p_c04r", "p_c04x", "p_c04t", "p_c04p", "p_c04o", "p_c04c", "p_c04m", "p_c04b"],
        "rule": "p_c04s: the shutdown scenarios of C11 with ONE shutdown caller (hang verdict only); p_c04x: the Retry lockstep family of C06 (cancel() racing with the submit thread) with the deadlock / pending verdicts; p_c04t / p_c04p / p_c04o / p_c04c / p_c04m / p_c04b: the lockstep families of C07, C08, C09, C10, C13, C14 (every component machine) with the deadlock / dead-thread verdicts of their monitors; p_c04r: the Retry lockstep family (C05) with the pending / late / deadlock verdicts (a result() or shutdown(wait=True) that would wait for ever on the submit thread); p_c04: seeded scenarios on real stacks: depth 1-4 over the seven layer kinds, base sync or the real ThreadPoolExecutor, client programs "
                "of 1-3 threads x 1-4 operations {submit, submit whose callable submits again, cancel, add_done_callback, add_done_callback "
                "whose callback submits again, result}, map functions that submit again, optional shutdown thread; x {random, sticky, PCT} "
                "schedules; deadlock = every unfinished thread blocked and no timer (or only periodic timers firing for ever); each deadlock is "
                "classified by its wait-for graph (who waits for which named lock held by whom); non-trivial = nested submissions or >= 2 threads",
        "assumptions": ["PARTIAL: the lock-order theorem is proved for arbitrary lock programs; that the library's composed lock programs respect one order (outside G10) is decided by the explored schedules, not proved"],
    },
    "C03": {
        "extra_props": ["Props/MapFut_E.v", "Props/C03_src.v", "Props/MapFut_E2.v", "Props/Comb_G.v", "Props/C03_retry.v", "Props/C07_more.v", "Props/C03_poll.v", "Props/C03_loops.v"],
        "modules": ["p_c03", "p_c03t", "p_c03h", "p_c03p", "p_c03r", "p_c03e", "p_c03m", "p_c03c", "p_c03z", "p_c03x"],
        "rule": "p_c03x: the expression trees of p_c02x (library futures built on library futures: proxies, shields, maps, combinators) with the lost-output verdicts; p_c03e: the Retry lockstep family with delegate futures cancelled by SOMEONE ELSE (environment cancel, Model/Retry.v EEnvCancel): a retry future left pending that way is the known finding G1; p_c03m / p_c03c / p_c03z: the lockstep families of C13, C14, C15 (MapFuture / FlatMapFuture, f_or / f_and, f_zip over environment futures) with the lost-output verdicts of their monitors; p_c03t / p_c03h / p_c03p / p_c03r: the lockstep scenario families of C09 / C07 / C08 / C05 (mixed timeouts on one executor, delegate completions against the hand-over thread's check/wait/clear, registrations and notify() against the poll thread's, attempts finishing against the submit thread's) replayed on the component machines, with the lost-future / late verdicts of their monitors; p_c03: seeded scenarios on real stacks (depth 1-4, sync / real thread pool) with a virtual clock: callables that succeed, fail "
                "(retries with back-off), block until t=2, futures cancelled through the returned future at t=0/1/2, small (3) or "
                "effectively infinite timeouts; x {random, sticky, PCT} schedules; monitor: every returned future is terminal when nothing "
                "can happen any more, and finished no later than the virtual time implied by the configured delays (so a lost wake-up that "
                "is only rescued by a 2 s / 30 s fallback timer is reported); pending futures are classified by the chain of library "
                "futures below them; non-trivial = a cancel or a retry and a preemption",
        "assumptions": ["the wake-up protocol is proved generically (EventLoop.v); that each of the four worker loops with its producer sites is an instance is PROVED for the loop bodies and producer methods regenerated from the source on every run (tools/loop2coq.py -> Gen/LoopSkel.v, Model/LoopIR.v, Props/C03_loops.v: per channel - work container, shutdown flags, weak reference - every interleaved trace is a trace of EventLoop.step); trusted there: the translator's vocabulary (which statements are scans / mutations / set / wait / clear) and its whitelist of irrelevant statements, both printed in the generated file; the lockstep machines and the virtual-time bound validate the same claim on the running code"],
    },
    "C20": {   'assumptions': [   'queue gauges: Model/QGauge.v in lockstep (a gauge update is attributed to the executor instance of the adjacent container operation of the same thread, the gauges being '
                           'labelled by executor name only)',
                           'exec_inprogress / exec_total / future_inprogress / future_total / future_cancel / future_error: Model/ExecGauge.v in lockstep (an update is attributed to the executor '
                           'instance / future whose __init__ / shutdown() / track_future / record_done bracket is innermost on the updating thread; the labelled series are sums over instances: '
                           'c20_exec_gauge_sum_at_rest)',
                           "PARTIAL: that every done future's record_done runs (add_done_callback) and the remaining counters (timeout, retry_total, poll_*, shutdown_cancel) are decided by the "
                           'registry-vs-reality comparison of this run; the abstract pairing law is Model/Metrics.v'],
        'extra_props': ['Props/C20_src.v', 'Props/MapFut_M.v', 'Props/C20_exec.v'],
        'modules': ['p_c20', 'p_c20q', 'p_c20e'],
        'rule': 'p_c20e: the same stacks (plus, in a third of the cases, two or three threads shutting the whole stack down at the same virtual time) with __init__ and shutdown() of every executor class '
                "bracketed per instance, the answer of every ShutdownHelper logged under its gate lock, track_future / record_done bracketed per future with the future's real outcome, and every "
                'exec_inprogress / exec_total / future_inprogress / future_total / future_cancel / future_error update observed in the stand-in registry and attributed to the innermost open bracket of '
                'its thread; the projection of each history is replayed on Model/ExecGauge.v (extracted); p_c20q: the same stacks with every RetryExecutor._jobs / ThrottleExecutor._to_submit replaced by '
                'a logging container, the executor locks named and every RETRY_QUEUE / THROTTLE_QUEUE update observed in the stand-in registry; the projection of each history onto (lock acquire/release, '
                'append, removal, inc, dec) per executor instance is replayed on Model/QGauge.v (extracted); p_c20: seeded scenarios on real stacks with a stand-in prometheus_client: 1-5 submissions '
                '(success, failure with retries, blocked), cancels at t=0/1/2/4 (queued, between retries, in flight), small or infinite timeouts, raising poll functions, optional early shutdown; at '
                'final quiescence every gauge of the stack must be 0, no gauge may ever go negative, counters future_total / future_cancel / future_error of the user-visible future type, poll_total / '
                'poll_error and exec_total must equal the observed events; non-trivial = a cancel or a failing first attempt'},
    "C12": {
        "extra_props": ["Props/C12_src.v", "Props/C12_keep_throttle.v", "Props/C12_keep_timeout.v", "Props/C12_keep_poll.v", "Props/C12_keep_cos.v",
                        "Props/C12_keep_mapfut.v", "Props/C12_keep_comb.v"],
        "modules": ["p_c12", "p_c12w", "p_c12p", "p_c12d"],
        "rule": "p_c12d: the client programs of C04 (nested submissions, timeouts that fire on futures whose callbacks resubmit) with the deadlock verdicts (a worker blocked for ever never exits); p_c12p: the Poll lockstep family of C08 with the verdicts about descriptors left behind by finished futures (concurrent completions / cancels against registration and deregistration); p_c12w: the drop scenarios of p_c12 with the four worker loops in lockstep with Model/Refs.v: every executor_ref() of the loop with its result, whether a library frame "
                "of the loop still holds the executor when it goes to wait, every set / wait / wake-up / time-out / clear of the loop's event and the finalisation of the executor "
                "(the weak reference's callback) are logged from outside and replayed on the extracted machine; p_c12: seeded scenarios on real retry / poll / throttle / timeout executors (over sync or a manual delegate that forgets finished "
                "work): 1-3 submissions with weakly referenced callable, argument, result and future; fates {completed, cancelled while "
                "queued, cancelled in flight, still pending when the executor is dropped}; the user drops references and gc.collect() runs "
                "at scheduler-chosen points; ending {shutdown, drop the last executor reference, interpreter-exit hook}; monitor: weakrefs "
                "of finished futures are dead while the executor lives on, pending futures are completed after the drop, the worker thread "
                "exits; non-trivial = a preemption occurred",
        "assumptions": ["PARTIAL: GC/finalisation timing is CPython's; the worker-loop protocol is proved on Model/Refs.v, which is in lockstep with the four loops (drop scenarios); reference retention of finished work is decided by weakref probes"],
    },
    "C02": {
        "extra_props": ["Props/Comb_F.v", "Props/MapFut_D.v", "Props/C02_src.v", "Props/C02_machines.v", "Props/C02_ir.v"],
        "modules": ["p_c02m", "p_c02c", "p_c02p", "p_c02x", "p_c02y", "p_c02t", "p_c02r"],
        "rule": "p_c02y: the chains of p_c13x (a done-callback that waits for another thread touching the same future; callbacks on intermediate futures; concurrent cancel); p_c02t / p_c02r: the Throttle and Retry lockstep families (cancel() of queued / in-flight futures racing with hand-over and completion) with their protocol verdicts; p_c02x: random expression trees (depth <= 3) over f_map / f_flat_map / f_proxy / f_nocancel / f_timeout / f_zip / f_or / f_and on 1-4 environment futures completed with values or exceptions in any order (monitor only: root done, outcome allowed by the tree's sequential meaning, waiters released); p_c02p: the C08 scenario family on PollExecutor plus 1-3 user done-callbacks per poll future (monitor only); library futures: the C13 scenario family (MapFuture/FlatMapFuture over environment futures; done-callbacks that may raise, "
                "added before/after completion; 0-2 cancels) plus 0-3 threads blocked in result()/exception()/wait()/as_completed() with a "
                "virtual timeout; combinator outputs: the C14/C15 family plus 1-3 waiters; every history replayed on Model/MapFut.v / "
                "Model/Comb.v; monitor: outcome seen by every callback = final outcome, callbacks exactly once and only when done, cancel() "
                "bool semantics, waiters released at the virtual instant of completion (any kind, incl. cancellation); non-trivial = a "
                "cancel or add_done_callback call and a preemption",
        "assumptions": ["poll / throttle / timeout futures: the protocol clauses (terminal once, cancel() bool semantics and never raising, cancelled futures notified, user callbacks of the timeout futures exactly once per registration) are PROVED on their machines (Props/C02_machines.v), which are tied to the code by the lockstep families of C07 / C08 / C09 and p_c02t; user done-callbacks on poll / throttle futures are not in those machines (monitor p_c02p only); retry futures are covered by the Retry machine's protocol events"],
    },
    "C09": {
        "extra_props": ["Props/C09_src.v", "Props/C09_ir.v"],
        "modules": ["p_c09", "p_c09f"],
        "gen_lemmas": ["partition_jobs_spec", "partition_overdue", "partition_pending", "partition_complete",
                       "wait_time_spec", "wait_time_le", "deadline_of_spec"],
        "rule": "p_c09: seeded scenarios (1-5 submissions from 1-3 client threads at virtual times, default timeout and per-call "
                "submit_timeout values incl. 0 and negative, delegate futures (environment) never completed / started / completed "
                "with result or exception at deadline-3..deadline+3 / completed inline inside delegate.submit, 0-2 done-callbacks "
                "(some raising) added early or late, client cancel() calls around the deadline) x {random, sticky, PCT} schedules; "
                "every implementation history (incl. every clock read and the argument of every timed wait) is replayed event by "
                "event on Model/Timeout.v (extracted); p_c09f: the same family through f_timeout() (shared weakly referenced "
                "sync+flat_map+timeout executor), monitor only; distinct = distinct event traces; non-trivial = the job thread "
                "made at least one cancel attempt and a preemption occurred",
        "assumptions": ["delegate executor, completion of its futures, user callbacks and the clock are environment",
                        "integer virtual time; a timed wait of 0 on the executor's event takes one tick (the real zero-wait busy loop "
                        "`deadline < now` false / wait(0) terminates because the monotonic clock advances while it spins)",
                        "no shutdown() and no garbage collection of the executor during a scenario; no nested submit from callbacks "
                        "(the now re-entrant gate is modelled as a plain lock)",
                        "'at the deadline' (cancel attempt no later than the first timer expiry after the deadline) is decided by the "
                        "monitor on implementation histories; its safety skeleton is proved on the model"],
    },
    "C07": {
        "extra_props": ["Props/C07_src.v", "Props/C07_ir.v"],
        "module": "p_c07",
        "gen_lemmas": ["throttled_spec", "admission_spec", "loop_wait_spec", "eval_throttle_raise", "block_ready_true"],
        "rule": "seeded random scenarios (count: static 0/1/2/3/None or a scripted callable changing over time, returning None or "
                "raising; blocking and non-blocking mode; 1-3 submitter threads x 1-3 submits with virtual sleeps; 0-2 cancel() "
                "calls per future from separate threads at scripted delays; optional shutdown(); delegate futures completed by "
                "one environment thread each at scripted virtual times, inline/sync, failing, or never; 0-65 s of idle tail so the "
                "2 s / 30 s fallback waits play out) x {random, sticky, PCT} schedules under a weak-fairness wrapper for the "
                "busy-wait of blocking submitters; every implementation history is replayed event by event on Model/Throttle.v "
                "(extracted); distinct = distinct event traces; non-trivial = a preemption occurred and the admission loop "
                "throttled with work queued or a blocking submit parked",
        "assumptions": ["delegate executor, completion of its futures, the count callable's answers and the clock are environment",
                        "instrumentation from outside: AtomicInt.value reads and deque.popleft are logged (both are unlocked/racy reads "
                        "or writes another thread's unlocked read can see); the hand-over thread logs its start",
                        "user done-callbacks on ThrottleFutures, environment-side cancellation of delegate futures and garbage "
                        "collection of the executor are outside the scenario family"],
    },
    "C08": {
        "extra_props": ["Props/C08_src.v", "Props/C08_ir.v"],
        "module": "p_c08",
        "gen_lemmas": [],
        "rule": "seeded random scenarios (1-5 submissions, 0-2 cancel() per future and 0-2 notify() from 1-3 client threads at "
                "scripted virtual times, delegates completed/failed inline or by 1-2 environment threads with or without a "
                "Running phase, poll function scripted per call: yield result / exception / double yields per slot, returns "
                "int / float / None / str or raises; cancel function truthy / falsy / raising) x {random, sticky, PCT} "
                "schedules; every implementation history is replayed event by event on Model/Poll.v (extracted); "
                "distinct = distinct event traces; non-trivial = a poll call was shown a descriptor and a preemption occurred",
        "assumptions": ["delegate executor, completion of its futures, the poll function, the cancel function and the clock are environment",
                        "no done-callbacks added by users to poll futures, no shutdown before the end of the scenario, "
                        "delegates are not cancelled behind the executor's back (C03's business)",
                        "virtual time advances only while the poll thread is blocked in wait() and not notified",
                        "the strict 'before the call began' reading is refuted for the faithful model (c08_descriptor_strict_refuted) "
                        "and is known finding P2; the set is proved exact relative to the snapshot (c08_descriptor_exact_at_snapshot)"],
    },
    "C18": {
        "modules": ["p_c18", "p_c18m", "p_c18p", "p_c18r", "p_c18c", "p_c18t", "p_c18b", "p_c18z"],
        "extra_props": ["Props/Comb_F.v", "Props/C06_machine.v", "Props/C18_src.v"],
        "gen_lemmas": [],
        "rule": "p_c18b / p_c18z: the combinator lockstep families of C14 / C15 with the dead-thread / raising-constructor verdicts; p_c18c / p_c18t: the lockstep families of C06 (retry: cancel() racing with the submit thread) and C07 (throttle: raising / changing count "
                "callables, blocking submit) with their fault verdicts (thread died, submit() or cancel() raised); p_c18m / p_c18p / p_c18r: the lockstep scenario families of C02+C13 (raising fn / error_fn / done-callbacks, several callbacks "
                "per future), C08 (raising poll and cancel functions, concurrent cancels) and C05 (raising policy methods and callables) replayed "
                "on Model/MapFut.v, Model/Poll.v, Model/Retry.v - a dying thread or an escaping exception is an event those machines reject - "
                "with the fault-related verdicts of their monitors; p_c18: seeded scenarios on real stacks: depth 1-4 over the seven layer kinds, base sync or the real ThreadPoolExecutor; each of the "
                "nine user-code call sites (callable, map fn, error fn, poll fn, cancel fn, policy should_retry / sleep_time, throttle count "
                "callable, done-callback) raises at its first / second / third / every call with probability 0.4 each; 1-4 submissions, an "
                "optional cancel(); x {random, sticky, PCT} schedules; monitor: every future ends with its own callable's outcome or the "
                "fault that belongs to it, no internal thread died, no library-internal exception (InvalidStateError, AssertionError ...) "
                "escaped from a Future method or into a worker thread, and a fresh fault-free submission afterwards is served; "
                "non-trivial = at least one fault fired and a preemption occurred",
        "assumptions": ["PARTIAL: per-component confinement of faults is proved (Props/C18.v, Props/Comb_F.v); the cross-layer statement and "
                        "the liveness probe are decided by the monitor on explored schedules"],
    },
}
