"""Per-property configuration of bin/check."""

HARNESS_TIMEOUT = {"quick": 900, "thorough": 6 * 3600}

TRUSTED_BASE = [
    "Coq 8.16.1 kernel (coqc), including vm_compute for witnesses/Examples/finite tables; no native_compute",
    "no Axiom/Parameter/Admitted in the development (grep-checked on every run); stdlib axioms only if listed by Print Assumptions below",
    "translator tools/pyk2coq.py (python ast -> Gallina for the decision kernels in coq/Gen)",
    "extraction with ExtrOcamlBasic only (bool, option, unit, list, prod, sumbool, sumor, andb, orb); nat/positive/Z/Q stay extracted datatypes; coq/Extract/driver.ml",
    "correspondence harness harness/detsched.py (baton scheduler, virtual clock, patched threading primitives and stdlib Future methods), harness/drive.py and the property's adapter/monitor",
    "modelled, not verified: CPython (GIL atomicity of single container operations), threading, concurrent.futures.Future (Base/Fut.v), logging",
]

COMMON_ASSUMPTIONS = [
    "preemption only at visible operations (lock/event/thread/Future-method/user-code boundaries); thread-local code between them commutes",
    "the theorems speak about the Coq model; the tie to /repo is the regenerated kernels plus the sampled trace correspondence of this run",
]

CHECKS = {
    "C10": {
        "module": "p_c10",
        "rule": "seeded random scenarios (1-4 submitter threads x 1-3 submits, 1-2 shutdown calls, optional second shutdown thread, "
                "environment completing delegate futures, late submit) x {random, sticky, PCT} schedules; every implementation "
                "history is replayed event by event on Model/Cos.v (extracted); distinct = distinct event traces; non-trivial = "
                "a submit() call overlaps a shutdown() call",
        "assumptions": ["delegate executor and completion of its futures are environment (scripted Manual executor)"],
    },
}
