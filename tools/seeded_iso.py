#!/usr/bin/env python3
"""tools/seeded_iso.py <seeded/NAME> PROP [PROP...]
Like tools/seeded.py but isolated, so that several seeded changes can be evaluated at once and /repo is never touched:
 1. scratch worktree /tmp/sw-NAME of /repo HEAD: the demo passes; with the patch applied it fails
 2. a scratch copy /tmp/sv-NAME of /verif (with its built coq/ tree) runs `bin/check PROP --tier quick` with
    VERIF_REPO=/tmp/sw-NAME (the translator, the harness and the replays all read that tree)
 3. seeded/NAME/result.json + detected-by-PROP.json are written here; both scratch trees are removed
(the registered checks themselves never use VERIF_REPO: they run on /repo)"""
import sys, os, subprocess, json, shutil, time

VERIF = os.path.dirname(os.path.dirname(os.path.abspath(__file__)))


def sh(cmd, cwd=None, env=None, timeout=3600):
    p = subprocess.run(cmd, shell=True, cwd=cwd, env=env, stdout=subprocess.PIPE, stderr=subprocess.STDOUT,
                       universal_newlines=True, timeout=timeout)
    return p.returncode, p.stdout


def main():
    d = os.path.abspath(sys.argv[1])
    props = sys.argv[2:]
    name = os.path.basename(d)
    patch = os.path.join(d, "patch.diff")
    res = {"name": name, "props": {}, "isolated": True}
    wt, sv = "/tmp/sw-%s" % name, "/tmp/sv-%s" % name
    sh("git -C /repo worktree remove --force %s; rm -rf %s %s" % (wt, wt, sv))
    rc, out = sh("git -C /repo worktree add -q --detach %s HEAD" % wt)
    env = dict(os.environ, PYTHONPATH=wt, PYTHONHASHSEED="0")
    demo = os.path.join(d, "demo.py")
    try:
        rc0, o0 = sh("timeout 300 /venv/bin/python %s" % demo, cwd=wt, env=env)
        rca, oa = sh("git apply %s" % patch, cwd=wt)
        rc1, o1 = sh("timeout 300 /venv/bin/python %s" % demo, cwd=wt, env=env)
        res.update(demo_clean_rc=rc0, patch_applies=(rca == 0), demo_patched_rc=rc1, demo_patched_tail=o1[-400:],
                   confirmed=(rc0 == 0 and rca == 0 and rc1 != 0))
        if rca == 0:
            sh("rsync -a --exclude .git --exclude out --exclude seeded --exclude .build.lock %s/ %s/" % (VERIF, sv))
            env2 = dict(os.environ, VERIF_REPO=wt)
            for p in props:
                t0 = time.time()
                rc, out = sh("bin/check %s --tier quick" % p, cwd=sv, env=env2)
                res["props"][p] = {"rc": rc, "wall_s": round(time.time() - t0, 1),
                                   "lines": [l for l in out.splitlines() if l.startswith(("VIOLATION", "KNOWN", p))][:6]}
                for l in out.splitlines():
                    if l.startswith("VIOLATION"):
                        rp = l.split("replay=")[1].split()[0]
                        if os.path.exists(rp):
                            shutil.copy(rp, os.path.join(d, "detected-by-%s.json" % p))
                        break
    finally:
        sh("git -C /repo worktree remove --force %s; rm -rf %s %s" % (wt, wt, sv))
    json.dump(res, open(os.path.join(d, "result.json"), "w"), indent=1)
    print(name, res.get("confirmed"), json.dumps(res["props"])[:700])


if __name__ == "__main__":
    main()
