#!/usr/bin/env python3
"""Fail-closed translator: the CONCURRENT SKELETON of CancelOnShutdownExecutor.submit / .shutdown
(cancel_on_shutdown.py) with ShutdownHelper.__call__ / ensure_alive (helpers.py) inlined
-> the imperative IR of coq/Model/CosIR.v, emitted as Gallina in coq/Gen/CosSkel.v; and ShutdownHelper on its own
(ensure_alive around an empty guarded section, __call__) in coq/Gen/GateSkel.v for coq/Model/GateIR.v.

The compiler is generic in shape:
  * `with <lock>:` blocks (lock table keyed by (class, expression text)),
  * `with <obj>.<contextmanager>():` - the @contextmanager generator is inlined: its body up to the single
    `yield` runs on entry, the with-body replaces the `yield`, the enclosing with-blocks of the generator are
    left on exit (also on the return / raise path, which is how contextlib resumes the generator),
  * `if <cond>: ... else: ...` over a small vocabulary of conditions; a call inside a condition
    (`self._shutdown()`) is inlined as an SCall in front of the test,
  * `for f in <snapshot>:` whose body starts with the cancel call,
  * `return` / `return <None|True|False|future>`, `raise <Exception>(<constants>)`,
  * calls drawn from a vocabulary table keyed by the Python text of the statement.
Metrics and logging statements are dropped EXPLICITLY through a whitelist (their arguments must not contain
calls other than the metrics chain itself); every dropped statement is listed in the generated file.  Nothing
else is dropped: any statement or expression outside the subset stops with TRANSLATOR-FAIL-CLOSED, exit 2.

Usage: python3 tools/skel2coq.py          (VERIF_REPO=<dir> to read another checkout; default /repo)
It is also registered in tools/pyk2coq.py's KERNELS list, so `bin/check` regenerates Gen/CosSkel.v on every run.
"""
import ast, os, sys

REPO = os.environ.get("VERIF_REPO", "/repo")
SRC = os.path.join(REPO, "more_executors", "_impl")
OUT = os.path.join(os.path.dirname(os.path.dirname(os.path.abspath(__file__))), "coq", "Gen")
NAME = "CosSkel.v"


class Unsupported(Exception):
    pass


def U(node):
    return ast.unparse(node)


def N(text):
    return ast.unparse(ast.parse(text))


def parse(rel):
    return ast.parse(open(os.path.join(SRC, rel)).read())


def find_class(tree, cls):
    for n in tree.body:
        if isinstance(n, ast.ClassDef) and n.name == cls:
            return n
    raise Unsupported("class %s not found" % cls)


def methods(cls):
    return dict((m.name, m) for m in cls.body if isinstance(m, (ast.FunctionDef, ast.AsyncFunctionDef)))


def is_doc(s):
    return isinstance(s, ast.Expr) and isinstance(s.value, ast.Constant) and isinstance(s.value.value, str)


def imported_from(tree, module, name):
    for n in tree.body:
        if isinstance(n, ast.ImportFrom) and n.module == module and any(a.name == name and a.asname is None for a in n.names):
            return True
    return False


# ------------------------------------------------------------------------------------------------
# class facts (what the attribute names denote); everything is checked, nothing assumed
# ------------------------------------------------------------------------------------------------
COS, HELPER = "CancelOnShutdownExecutor", "ShutdownHelper"
LOCKS = {(HELPER, "self._lock"): "LG", (COS, "self._lock"): "LX"}


def init_assignments(cls):
    init = methods(cls).get("__init__")
    if init is None:
        raise Unsupported("%s.__init__ not found" % cls.name)
    out = {}
    for s in ast.walk(init):
        if isinstance(s, ast.Assign):
            for t in s.targets:
                key = U(t)
                if key in out:
                    raise Unsupported("%s.__init__ assigns %s twice" % (cls.name, key))
                out[key] = U(s.value)
        elif isinstance(s, (ast.AugAssign, ast.AnnAssign)):
            raise Unsupported("%s.__init__: %s" % (cls.name, U(s)[:60]))
    return out


def check_helper_facts(helper_tree):
    helper = find_class(helper_tree, HELPER)
    if sorted(methods(helper)) != ["__call__", "__init__", "ensure_alive"]:
        raise Unsupported("%s has methods %s (expected __init__, ensure_alive, __call__)" % (HELPER, sorted(methods(helper))))
    for s in helper.body:
        if not (isinstance(s, ast.FunctionDef) or is_doc(s)):
            raise Unsupported("%s: class-level statement %s" % (helper.name, U(s)[:60]))
    hi = init_assignments(helper)
    want_h = {"self._lock": "RLock()", "self.is_shutdown": "False"}
    for k, v in want_h.items():
        if hi.get(k) != v:
            raise Unsupported("%s.__init__: %s = %s (expected %s)" % (HELPER, k, hi.get(k), v))
    if not imported_from(helper_tree, "threading", "RLock"):
        raise Unsupported("RLock is not threading.RLock")
    if not imported_from(helper_tree, "contextlib", "contextmanager"):
        raise Unsupported("contextmanager is not contextlib.contextmanager")
    no_rebinding(helper_tree)
    hm = methods(helper)
    if [U(d) for d in hm["ensure_alive"].decorator_list] != ["contextmanager"]:
        raise Unsupported("ensure_alive is not a plain @contextmanager")
    if hm["__call__"].decorator_list:
        raise Unsupported("__call__ is decorated")
    if U(hm["ensure_alive"].args) != "self" or U(hm["__call__"].args) != "self":
        raise Unsupported("ShutdownHelper method signature")
    for fn in (hm["__call__"], hm["ensure_alive"]):
        no_forbidden_nodes(fn)
    check_yield_path(hm["ensure_alive"])
    if contains_yield(hm["__call__"]):
        raise Unsupported("__call__ is a generator")
    return hm


def no_rebinding(tree):
    """no module-level rebinding of the names the facts rest on"""
    for n in tree.body:
        if isinstance(n, (ast.Assign, ast.AugAssign, ast.AnnAssign)):
            for t in ast.walk(n):
                if isinstance(t, ast.Name) and isinstance(t.ctx, ast.Store) and t.id in ("RLock", HELPER, "metrics", "contextmanager", COS):
                    raise Unsupported("module-level rebinding of %s" % t.id)


def check_class_facts(cos_tree, helper_tree):
    hm = check_helper_facts(helper_tree)
    cos = find_class(cos_tree, COS)
    if sorted(methods(cos)) != ["__init__", "shutdown", "submit"]:
        raise Unsupported("%s has methods %s (expected __init__, shutdown, submit)" % (COS, sorted(methods(cos))))
    for s in cos.body:
        if not (isinstance(s, ast.FunctionDef) or is_doc(s)):
            raise Unsupported("%s: class-level statement %s" % (cos.name, U(s)[:60]))
    ci = init_assignments(cos)
    want_c = {"self._futures": "set()", "self._lock": "RLock()", "self._shutdown": "ShutdownHelper()", "self._delegate": "delegate"}
    for k, v in want_c.items():
        if ci.get(k) != v:
            raise Unsupported("%s.__init__: %s = %s (expected %s)" % (COS, k, ci.get(k), v))
    if not imported_from(cos_tree, "threading", "RLock"):
        raise Unsupported("RLock is not threading.RLock")
    if not imported_from(cos_tree, "helpers", HELPER):
        raise Unsupported("ShutdownHelper is not .helpers.ShutdownHelper")
    if not imported_from(cos_tree, "metrics", "metrics"):
        raise Unsupported("metrics is not .metrics.metrics")
    no_rebinding(cos_tree)
    cm = methods(cos)
    for m in (cm["submit"], cm["shutdown"]):
        if m.decorator_list:
            raise Unsupported("%s is decorated" % m.name)
    if U(cm["submit"].args) != "self, *args, **kwargs":
        raise Unsupported("submit signature: " + U(cm["submit"].args))
    if U(cm["shutdown"].args) != "self, wait=True, **_kwargs":
        raise Unsupported("shutdown signature: " + U(cm["shutdown"].args))
    for fn in (cm["submit"], cm["shutdown"]):
        no_forbidden_nodes(fn)
        if contains_yield(fn):
            raise Unsupported("%s is a generator" % fn.name)
    return cm, hm


# ------------------------------------------------------------------------------------------------
# the whitelist of statements that are dropped (metrics / logging: no effect on the skeleton)
# ------------------------------------------------------------------------------------------------
def pure_arg(e):
    """arguments of dropped calls: constants, local names, attributes of self - no calls, no subscripts"""
    if isinstance(e, ast.Constant) or isinstance(e, ast.Name):
        return True
    if isinstance(e, ast.Attribute):
        return pure_arg(e.value)
    return False


def is_dropped(s):
    if not (isinstance(s, ast.Expr) and isinstance(s.value, ast.Call)):
        return False
    c = s.value
    f = c.func
    # self._log.debug(<pure args>)
    if U(f) == "self._log.debug":
        return all(pure_arg(a) for a in c.args) and all(pure_arg(k.value) for k in c.keywords)
    # metrics.<NAME>[.labels(<pure kwargs>)].inc() / .dec()
    if isinstance(f, ast.Attribute) and f.attr in ("inc", "dec") and not c.args and not c.keywords:
        base = f.value
        if isinstance(base, ast.Call) and isinstance(base.func, ast.Attribute) and base.func.attr == "labels":
            if not (all(pure_arg(a) for a in base.args) and all(pure_arg(k.value) for k in base.keywords)):
                return False
            base = base.func.value
        return isinstance(base, ast.Attribute) and isinstance(base.value, ast.Name) and base.value.id == "metrics" \
            and base.attr.isupper()
    return False


# ------------------------------------------------------------------------------------------------
# compiler: python statements -> IR terms (python tuples), then printed as Gallina
# ------------------------------------------------------------------------------------------------
class Ctx(object):
    def __init__(self, cls, cm, hm, dropped, depth=0, in_for=False, yield_body=None, fut_bound=False, snap_bound=False):
        self.cls, self.cm, self.hm, self.dropped = cls, cm, hm, dropped
        self.depth, self.in_for, self.yield_body = depth, in_for, yield_body
        self.fut_bound, self.snap_bound = fut_bound, snap_bound

    def sub(self, **kw):
        d = dict(cls=self.cls, cm=self.cm, hm=self.hm, dropped=self.dropped, depth=self.depth, in_for=self.in_for,
                 yield_body=self.yield_body, fut_bound=self.fut_bound, snap_bound=self.snap_bound)
        d.update(kw)
        return Ctx(**d)


def inline_helper_call(ctx):
    """self._shutdown() : ShutdownHelper.__call__ inlined (the test-and-set)"""
    if ctx.depth > 4:
        raise Unsupported("inlining too deep")
    body = compile_block(ctx.hm["__call__"].body, ctx.sub(cls=HELPER, depth=ctx.depth + 1, in_for=False, yield_body=None,
                                                      fut_bound=False, snap_bound=False), toplevel=True)
    return ("SCall", body)


def compile_cond(e, ctx):
    """-> (prelude statements, cond term)"""
    if isinstance(e, ast.UnaryOp) and isinstance(e.op, ast.Not):
        pre, c = compile_cond(e.operand, ctx)
        return pre, ("CNot", c)
    text = U(e)
    if ctx.cls == HELPER and text == "self.is_shutdown":
        return [], ("CFlag",)
    if ctx.cls == COS and text == "self._shutdown()":
        return [inline_helper_call(ctx)], ("CRet",)
    if ctx.in_for and text == "cancel":
        return [], ("CCancelled",)
    raise Unsupported("condition `%s` in %s" % (text[:60], ctx.cls))


RAISABLE = ("RuntimeError",)


def compile_stmt(s, ctx, last):
    """-> list of IR statements"""
    if is_doc(s):
        raise Unsupported("string expression statement inside a body")
    if is_dropped(s):
        ctx.dropped.append("%s: %s" % (ctx.cls, " ".join(U(s).split())))
        return []
    text = U(s)
    if isinstance(s, ast.With):
        if len(s.items) != 1 or s.items[0].optional_vars is not None:
            raise Unsupported("with-statement shape: " + text[:60])
        ce = U(s.items[0].context_expr)
        if (ctx.cls, ce) in LOCKS:
            return [("SWith", LOCKS[(ctx.cls, ce)], compile_block(s.body, ctx))]
        if ctx.cls == COS and ce == "self._shutdown.ensure_alive()":
            if ctx.depth > 4:
                raise Unsupported("inlining too deep")
            gen = ctx.hm["ensure_alive"]
            # the with-body is compiled in the caller's context and spliced in at the generator's `yield`
            inner = compile_block(s.body, ctx)
            out = compile_block(gen.body, ctx.sub(cls=HELPER, depth=ctx.depth + 1, in_for=False, yield_body=inner,
                                                  fut_bound=False, snap_bound=False), toplevel=True, want_yield=True)
            return out
        raise Unsupported("with `%s` in %s" % (ce[:60], ctx.cls))
    if isinstance(s, ast.If):
        pre, c = compile_cond(s.test, ctx)
        return pre + [("SIf", c, compile_block(s.body, ctx, may_be_empty=True), compile_block(s.orelse, ctx, may_be_empty=True))]
    if isinstance(s, ast.Raise):
        e = s.exc
        if s.cause is None and isinstance(e, ast.Call) and isinstance(e.func, ast.Name) and e.func.id in RAISABLE \
                and all(isinstance(a, ast.Constant) for a in e.args) and not e.keywords:
            return [("SRaise",)]
        raise Unsupported("raise shape: " + text[:60])
    if isinstance(s, ast.Return):
        if s.value is None or (isinstance(s.value, ast.Constant) and s.value.value is None):
            return [("SReturn", "ENone")]
        if isinstance(s.value, ast.Constant) and s.value.value is True:
            return [("SReturn", "(EBool true)")]
        if isinstance(s.value, ast.Constant) and s.value.value is False:
            return [("SReturn", "(EBool false)")]
        if ctx.cls == COS and U(s.value) == "future" and ctx.fut_bound:
            return [("SReturn", "EFuture")]
        raise Unsupported("return value `%s`" % U(s.value)[:60])
    if isinstance(s, ast.Expr) and isinstance(s.value, ast.Yield):
        if ctx.yield_body is None or s.value.value is not None:
            raise Unsupported("yield outside an inlined @contextmanager / with a value")
        if not last:
            raise Unsupported("code after `yield` in the @contextmanager (exit code other than leaving with-blocks)")
        if ctx.yield_body == "USED":
            raise Unsupported("second yield")
        body, ctx.yield_body = ctx.yield_body, "USED"
        return list(body)
    if isinstance(s, ast.For):
        if ctx.cls == COS and U(s.target) == "f" and U(s.iter) == "futures" and ctx.snap_bound and not s.orelse and not ctx.in_for:
            if not s.body or U(s.body[0]) not in (N("cancel = f.cancel()"),):
                raise Unsupported("for-loop body must start with `cancel = f.cancel()`: " + U(s.body[0])[:60])
            return [("SForCancel", compile_block(s.body[1:], ctx.sub(in_for=True), may_be_empty=True))]
        raise Unsupported("for-loop shape: " + text.split("\n")[0][:60])
    # vocabulary of plain statements, keyed by (class, text)
    key = (ctx.cls, text)
    if key == (HELPER, N("self.is_shutdown = True")):
        return [("SSetFlag",)]
    if key == (COS, N("future = self._delegate.submit(*args, **kwargs)")) and not ctx.fut_bound and not ctx.in_for:
        ctx.fut_bound = True
        return [("SDelegateSubmit",)]
    if key == (COS, N("self._futures.add(future)")) and ctx.fut_bound:
        return [("SSetAdd",)]
    if key == (COS, N("future.add_done_callback(self._futures.discard)")) and ctx.fut_bound:
        return [("SAddDoneCallbackDiscard",)]
    if key == (COS, N("futures = self._futures.copy()")) and not ctx.in_for:
        ctx.snap_bound = True
        return [("SSnapshot",)]
    if key == (COS, N("self._delegate.shutdown(wait, **_kwargs)")) and not ctx.in_for:
        return [("SDelegateShutdown",)]
    raise Unsupported("statement `%s` in %s" % (text.split("\n")[0][:70], ctx.cls))


def compile_block(stmts, ctx, toplevel=False, may_be_empty=False, want_yield=False):
    """Blocks share the binding state of their context sequentially (a local bound in a nested block stays bound:
    python scoping).  `yield` must be the last statement of every block on its path."""
    stmts = list(stmts)
    if toplevel and stmts and is_doc(stmts[0]):
        stmts = stmts[1:]          # the docstring (explicitly skipped)
    out = []
    for i, s in enumerate(stmts):
        last = i == len(stmts) - 1
        if not last and ctx.yield_body not in (None, "USED") and contains_yield(s):
            raise Unsupported("code after the block containing `yield` in the @contextmanager")
        out.extend(compile_stmt(s, ctx, last))
    if want_yield and ctx.yield_body != "USED":
        raise Unsupported("@contextmanager without a reachable yield on the straight path")
    return out


def contains_yield(s):
    return any(isinstance(n, (ast.Yield, ast.YieldFrom)) for n in ast.walk(s))


def check_yield_path(gen):
    """the single yield of the generator sits under with-blocks only (not under if / for / try / while)"""
    ys = [n for n in ast.walk(gen) if isinstance(n, (ast.Yield, ast.YieldFrom))]
    if len(ys) != 1 or not isinstance(ys[0], ast.Yield):
        raise Unsupported("@contextmanager must contain exactly one plain yield")

    def path(stmts):
        for s in stmts:
            if isinstance(s, ast.Expr) and s.value is ys[0]:
                return True
            if isinstance(s, ast.With) and path(s.body):
                return True
        return False
    if not path(gen.body):
        raise Unsupported("the yield of the @contextmanager is not on a path of with-blocks only")


def no_nested_same_lock(prog, held=()):
    for s in prog:
        if s[0] == "SWith":
            if s[1] in held:
                raise Unsupported("with-block on %s nested inside a with-block on the same lock (re-entrant acquisition is outside the IR)" % s[1])
            no_nested_same_lock(s[2], held + (s[1],))
        elif s[0] == "SIf":
            no_nested_same_lock(s[2], held)
            no_nested_same_lock(s[3], held)
        elif s[0] in ("SCall", "SForCancel"):
            no_nested_same_lock(s[1], held)


def no_forbidden_nodes(fn):
    for n in ast.walk(fn):
        if isinstance(n, (ast.Try, ast.While, ast.AsyncWith, ast.AsyncFor, ast.Await, ast.Lambda, ast.Global, ast.Nonlocal,
                          ast.FunctionDef, ast.ClassDef, ast.Delete, ast.Assert, ast.NamedExpr)) and n is not fn:
            raise Unsupported("%s: construct %s outside the subset" % (fn.name, type(n).__name__))
        if hasattr(ast, "TryStar") and isinstance(n, ast.TryStar):
            raise Unsupported("%s: try*" % fn.name)


# ------------------------------------------------------------------------------------------------
# printing
# ------------------------------------------------------------------------------------------------
def pp_cond(c):
    return "(CNot %s)" % pp_cond(c[1]) if c[0] == "CNot" else c[0]


def pp_list(items, ind):
    if not items:
        return "[]"
    pad = " " * ind
    return "[ " + (";\n" + pad + "  ").join(pp_stmt(s, ind + 2) for s in items) + " ]"


def pp_stmt(s, ind):
    k = s[0]
    if k == "SWith":
        return "SWith %s\n%s%s" % (s[1], " " * (ind + 2), pp_list(s[2], ind + 2))
    if k == "SIf":
        return "SIf %s\n%s%s\n%s%s" % (pp_cond(s[1]), " " * (ind + 2), pp_list(s[2], ind + 2), " " * (ind + 2), pp_list(s[3], ind + 2))
    if k in ("SCall", "SForCancel"):
        return "%s\n%s%s" % (k, " " * (ind + 2), pp_list(s[1], ind + 2))
    if k == "SReturn":
        return "SReturn %s" % s[1]
    return k


def header(what, dropped):
    out = ["(* GENERATED by tools/skel2coq.py from %s -- do not edit." % what,
           "   Regenerated on every check run.  Dropped by the metrics / logging whitelist:"]
    for d in dropped:
        out.append("     " + d.replace("(*", "( *").replace("*)", "* )"))
    if not dropped:
        out.append("     (nothing)")
    out += ["*)",
            "From Coq Require Import List.",
            "Import ListNotations.",
            "From ME Require Import Model.Cos Model.CosIR.",
            ""]
    return out


def generate_text():
    """Gen/CosSkel.v: CancelOnShutdownExecutor.submit / .shutdown, helper inlined"""
    cos_tree, helper_tree = parse("cancel_on_shutdown.py"), parse("helpers.py")
    cm, hm = check_class_facts(cos_tree, helper_tree)
    dropped = []
    progs = {}
    for name in ("submit", "shutdown"):
        ctx = Ctx(COS, cm, hm, dropped)
        progs[name] = compile_block(cm[name].body, ctx, toplevel=True)
        no_nested_same_lock(progs[name])
    out = header("more_executors/_impl/cancel_on_shutdown.py (submit, shutdown) and\n"
                 "   more_executors/_impl/helpers.py (ShutdownHelper.__call__, ensure_alive)", dropped)
    out += ["Definition submit_prog : list stmt :=",
            "  " + pp_list(progs["submit"], 2) + ".",
            "",
            "Definition shutdown_prog : list stmt :=",
            "  " + pp_list(progs["shutdown"], 2) + ".",
            ""]
    return "\n".join(out)


def generate_gate_text():
    """Gen/GateSkel.v: helpers.ShutdownHelper on its own - `with ensure_alive(): <nothing>` and `__call__()`"""
    helper_tree = parse("helpers.py")
    hm = check_helper_facts(helper_tree)
    dropped = []
    ctx = Ctx(HELPER, None, hm, dropped, yield_body=[])
    enter = compile_block(hm["ensure_alive"].body, ctx, toplevel=True, want_yield=True)
    call = compile_block(hm["__call__"].body, Ctx(HELPER, None, hm, dropped), toplevel=True)
    no_nested_same_lock(enter)
    no_nested_same_lock(call)
    out = header("more_executors/_impl/helpers.py (ShutdownHelper.ensure_alive with an empty guarded body, ShutdownHelper.__call__)", dropped)
    out += ["Definition enter_prog : list stmt :=",
            "  " + pp_list(enter, 2) + ".",
            "",
            "Definition call_prog : list stmt :=",
            "  " + pp_list(call, 2) + ".",
            ""]
    return "\n".join(out)


def emit(name, text):
    os.makedirs(OUT, exist_ok=True)
    p = os.path.join(OUT, name)
    old = open(p).read() if os.path.exists(p) else None
    if old != text:
        open(p, "w").write(text)


GENERATORS = [("CosSkel.v", generate_text), ("GateSkel.v", generate_gate_text)]


def generate(name=NAME):
    """entry point for tools/pyk2coq.py (raises Unsupported)"""
    try:
        text = dict(GENERATORS)[name]()
    except Unsupported:
        raise
    except (SyntaxError, IndexError, AttributeError, KeyError, ValueError, TypeError, OSError) as e:
        raise Unsupported("%s: %s" % (type(e).__name__, e))
    emit(name, text)


def main():
    rc = 0
    for name, _ in GENERATORS:
        try:
            generate(name)
            print("generated coq/Gen/%s" % name)
        except Unsupported as e:
            msg = "TRANSLATOR-FAIL-CLOSED: %s" % e
            for ext in (".vo", ".vok", ".vos", ".glob"):
                q = os.path.join(OUT, name[:-2] + ext)
                if os.path.exists(q):
                    os.remove(q)
            emit(name, "(* %s *)\nDefinition translator_failed_closed : True := 0.\n" % msg.replace("*)", "* )").replace("(*", "( *")[:400])
            print("%s: %s" % (name, msg))
            rc = 2
    sys.exit(rc)


if __name__ == "__main__":
    main()
