#!/usr/bin/env python3
"""Fail-closed translator: the CONCURRENT METHODS of TimeoutExecutor (timeout.py) - submit, submit_timeout,
shutdown, _on_future_done, _do_cancel, _job_loop with _job_loop_iter inlined - and ShutdownHelper.ensure_alive /
__call__ (helpers.py) inlined -> the imperative IR of coq/Model/TimeoutIR.v, emitted as Gallina in
coq/Gen/TimeoutSkel.v.

Shape of the compiler (same as tools/skel2coq.py, whose generic helpers it imports without editing it):
  * `with <lock>:` blocks from a lock table keyed by (class, expression text);
  * `with self._shutdown.ensure_alive():` - the @contextmanager generator is inlined at its single `yield`;
  * `if <cond>:` over a vocabulary of conditions keyed by their Python text; `self._shutdown()` inside a condition
    is inlined (SCall) in front of the test;
  * `while True:` (only as the whole body of _job_loop), `break`, `for job in overdue:`;
  * calls of the executor's own methods are inlined (`self.submit_timeout(self._timeout, ...)`,
    `cls._job_loop_iter(executor_ref())`, `executor._do_cancel(job)`), depth-bounded;
  * `return`, `return <future | (None, None) | (executor._jobs_write, wait_time) | inlined call>`,
    `raise RuntimeError(<constants>)`;
  * plain statements from a vocabulary keyed by (context, Python text), with the locals they need / bind checked.
The decision kernel `_partition_jobs` and the expressions of the wait-time / deadline computation are NOT translated
here: tools/pyk2coq.py regenerates them (coq/Gen/TimeoutGen.v); here `executor._partition_jobs()` is one leaf
(SPartition: the clock read, then one `job.future.done()` per job - that shape is checked by gen_timeout).
Dropped statements (logging, metrics) go through an explicit whitelist and are listed in the generated file; anything
else stops with TRANSLATOR-FAIL-CLOSED (exit 2).

Usage: python3 tools/timeout2coq.py        (VERIF_REPO=<dir> to read another checkout; default /repo)
Registered in tools/pyk2coq.py's KERNELS list, so `bin/check` regenerates Gen/TimeoutSkel.v on every run.
"""
import ast, os, sys

sys.path.insert(0, os.path.dirname(os.path.abspath(__file__)))
import skel2coq as K          # noqa: E402   (generic helpers only; not edited)
from skel2coq import Unsupported, U, N, find_class, methods, is_doc, imported_from, contains_yield, check_yield_path, pure_arg   # noqa: E402

OUT = K.OUT
NAME = "TimeoutSkel.v"
TE, HELPER, LOOP = "TimeoutExecutor", "ShutdownHelper", "TimeoutExecutor(cls)"
LOCKS = {(HELPER, "self._lock"): "LG", (TE, "self._jobs_lock"): "LX", (LOOP, "executor._jobs_lock"): "LX"}

EXECUTOR_LOOP_TEXT = N('''
def executor_loop(fn):
    @wraps(fn)
    def out(*args, **kwargs):
        try:
            return fn(*args, **kwargs)
        except RuntimeError as error:
            if "cannot schedule new futures after" in str(error):
                LOG.debug("Ignoring error due to interpreter shutdown", exc_info=1)
                return
            raise

    return out
''')


def parse(rel):
    return ast.parse(open(os.path.join(K.SRC, rel)).read())


# ------------------------------------------------------------------------------------------------
# class facts: what the attribute / local names denote (checked, not assumed)
# ------------------------------------------------------------------------------------------------
def check_facts(tree, helper_tree):
    hm = K.check_helper_facts(helper_tree)
    te = find_class(tree, TE)
    ms = methods(te)
    want = ["__init__", "_do_cancel", "_job_loop", "_job_loop_iter", "_on_future_done", "_partition_jobs", "shutdown",
            "submit", "submit_timeout"]
    if sorted(ms) != want:
        raise Unsupported("%s has methods %s (expected %s)" % (TE, sorted(ms), want))
    for s in te.body:
        if not (isinstance(s, ast.FunctionDef) or is_doc(s)):
            raise Unsupported("%s: class-level statement %s" % (TE, U(s)[:60]))
    ia = K.init_assignments(te)
    want_i = {"self._delegate": "delegate", "self._timeout": "timeout", "self._shutdown": "ShutdownHelper()",
              "self._jobs": "[]", "self._jobs_lock": "Lock()", "self._jobs_write": "get_event()",
              "event": "self._jobs_write", "self_ref": "weakref.ref(self, lambda _: event.set())",
              "self._job_thread": "Thread(name='TimeoutExecutor-%s' % name, target=self._job_loop, args=(self_ref,))"}
    for k, v in want_i.items():
        if ia.get(k) != v:
            raise Unsupported("%s.__init__: %s = %s (expected %s)" % (TE, k, ia.get(k), v))
    for mod, name in (("threading", "Lock"), ("threading", "Thread"), ("event", "get_event"), ("event", "is_shutdown"),
                      ("helpers", "ShutdownHelper"), ("helpers", "executor_loop"), ("map", "MapFuture"),
                      ("metrics", "metrics"), ("metrics", "track_future"), ("common", "MAX_TIMEOUT"),
                      ("collections", "namedtuple")):
        if not imported_from(tree, mod, name):
            raise Unsupported("%s is not %s.%s" % (name, mod, name))
    # monotonic: `from time import monotonic` inside the module-level try
    ok = False
    for n in tree.body:
        if isinstance(n, ast.Try):
            ok = any(isinstance(b, ast.ImportFrom) and b.module == "time" and [a.name for a in b.names] == ["monotonic"] and
                     b.names[0].asname is None for b in n.body)
    if not ok:
        raise Unsupported("monotonic is not time.monotonic")
    # module-level assignments: exactly LOG and Job
    assigns = [U(n) for n in tree.body if isinstance(n, (ast.Assign, ast.AugAssign, ast.AnnAssign))]
    if assigns != [N("LOG = LogWrapper(logging.getLogger('TimeoutExecutor'))"),
                   N("Job = namedtuple('Job', ['future', 'delegate_future', 'deadline'])")]:
        raise Unsupported("module-level assignments of timeout.py: %s" % assigns)
    for n in tree.body:
        if isinstance(n, (ast.FunctionDef, ast.AsyncFunctionDef)) or (isinstance(n, ast.ClassDef) and n.name != TE):
            raise Unsupported("module-level definition %s" % n.name)
    # signatures and decorators
    sigs = {"submit": "self, *args, **kwargs", "submit_timeout": "self, timeout, fn, *args, **kwargs",
            "shutdown": "self, wait=True, **_kwargs", "_on_future_done": "self, future", "_do_cancel": "self, job",
            "_job_loop": "cls, executor_ref", "_job_loop_iter": "cls, executor", "_partition_jobs": "self"}
    decos = {"_job_loop": ["classmethod", "executor_loop"], "_job_loop_iter": ["classmethod"]}
    for m, sig in sigs.items():
        if U(ms[m].args) != sig:
            raise Unsupported("%s signature: %s" % (m, U(ms[m].args)))
        if [U(d) for d in ms[m].decorator_list] != decos.get(m, []):
            raise Unsupported("%s decorators: %s" % (m, [U(d) for d in ms[m].decorator_list]))
        if contains_yield(ms[m]):
            raise Unsupported("%s is a generator" % m)
        no_forbidden_nodes(ms[m], allow_while=(m == "_job_loop"))
    # executor_loop is the known transparent wrapper (it only filters one RuntimeError at interpreter exit)
    el = [n for n in helper_tree.body if isinstance(n, ast.FunctionDef) and n.name == "executor_loop"]
    if len(el) != 1 or U(el[0]) != EXECUTOR_LOOP_TEXT:
        raise Unsupported("helpers.executor_loop is not the known wrapper")
    return ms, hm


def no_forbidden_nodes(fn, allow_while=False):
    for n in ast.walk(fn):
        bad = (ast.Try, ast.AsyncWith, ast.AsyncFor, ast.Await, ast.Lambda, ast.Global, ast.Nonlocal, ast.FunctionDef,
               ast.ClassDef, ast.Delete, ast.Assert, ast.NamedExpr)
        if isinstance(n, bad) and n is not fn:
            raise Unsupported("%s: construct %s outside the subset" % (fn.name, type(n).__name__))
        if isinstance(n, ast.While) and not allow_while:
            raise Unsupported("%s: while outside _job_loop" % fn.name)
        if hasattr(ast, "TryStar") and isinstance(n, ast.TryStar):
            raise Unsupported("%s: try*" % fn.name)


# ------------------------------------------------------------------------------------------------
# whitelist of dropped statements
# ------------------------------------------------------------------------------------------------
def log_arg(e):
    """arguments of dropped logging calls: constants, local names, attributes; len(<local name>)"""
    if pure_arg(e):
        return True
    return isinstance(e, ast.Call) and isinstance(e.func, ast.Name) and e.func.id == "len" and len(e.args) == 1 and \
        isinstance(e.args[0], ast.Name) and not e.keywords


def is_dropped(s):
    if not (isinstance(s, ast.Expr) and isinstance(s.value, ast.Call)):
        return False
    c = s.value
    f = U(c.func)
    if f in ("self._log.debug", "executor._log.debug", "LOG.debug"):
        return all(log_arg(a) for a in c.args) and all(log_arg(k.value) for k in c.keywords)
    # track_future(future, type='timeout', executor=self._name): metrics only (a no-op unless prometheus is installed;
    # the metrics layer is property C16's)
    if f == "track_future":
        return all(pure_arg(a) for a in c.args) and all(pure_arg(k.value) for k in c.keywords)
    return K.is_dropped(s)      # metrics.<NAME>[.labels(<pure kwargs>)].inc() / .dec()


# ------------------------------------------------------------------------------------------------
# compiler
# ------------------------------------------------------------------------------------------------
class Ctx(object):
    def __init__(self, cls, ms, hm, dropped, depth=0, bound=None, yield_body=None, in_for=False, in_while=False, held=()):
        self.cls, self.ms, self.hm, self.dropped, self.depth = cls, ms, hm, dropped, depth
        self.bound = set() if bound is None else bound      # locals bound so far (shared along the straight path)
        self.yield_body, self.in_for, self.in_while, self.held = yield_body, in_for, in_while, held

    def sub(self, **kw):
        d = dict(cls=self.cls, ms=self.ms, hm=self.hm, dropped=self.dropped, depth=self.depth, bound=self.bound,
                 yield_body=self.yield_body, in_for=self.in_for, in_while=self.in_while, held=self.held)
        d.update(kw)
        return Ctx(**d)


def need(ctx, *names):
    for n in names:
        if n not in ctx.bound:
            raise Unsupported("local `%s` used before it is bound" % n)


def inline(ctx, cls, name, bound):
    if ctx.depth > 4:
        raise Unsupported("inlining too deep")
    table = ctx.hm if cls == HELPER else ctx.ms
    c = ctx.sub(cls=cls, depth=ctx.depth + 1, bound=set(bound), yield_body=None, in_for=False, in_while=False)
    return ("SCall", compile_block(table[name].body, c, toplevel=True))


def compile_cond(e, ctx):
    if isinstance(e, ast.UnaryOp) and isinstance(e.op, ast.Not):
        pre, c = compile_cond(e.operand, ctx)
        return pre, ("CNot", c)
    text = U(e)
    if ctx.cls == HELPER and text == "self.is_shutdown":
        return [], ("CGateFlag",)
    if ctx.cls == TE and text == "self._shutdown()":
        return [inline(ctx, HELPER, "__call__", ())], ("CRet",)
    if ctx.cls == TE and text == "wait" and "wait" in ctx.bound:
        return [], ("CWaitArg",)
    if ctx.cls == TE and text == "cancel_result":
        need(ctx, "cancel_result")
        return [], ("CCancelResult",)
    if ctx.cls == LOOP and text == "executor" and "executor" in ctx.bound:
        return [], ("CExecutor",)
    if ctx.cls == LOOP and text == "executor._shutdown.is_shutdown or is_shutdown()":
        return [], ("CShutdown",)
    if ctx.cls == LOOP and text == "pending":
        need(ctx, "pending")
        return [], ("CPending",)
    if ctx.cls == LOOP and text == "event" and "event" in ctx.bound:
        return [], ("CRet",)           # `event` is the first component of the tuple the inlined call just returned
    raise Unsupported("condition `%s` in %s" % (text[:60], ctx.cls))


def compile_stmt(s, ctx, last):
    if is_doc(s):
        raise Unsupported("string expression statement inside a body")
    if is_dropped(s):
        ctx.dropped.append("%s: %s" % (ctx.cls, " ".join(U(s).split())))
        return []
    text = U(s)
    cls = ctx.cls
    if isinstance(s, ast.With):
        if len(s.items) != 1 or s.items[0].optional_vars is not None:
            raise Unsupported("with-statement shape: " + text[:60])
        ce = U(s.items[0].context_expr)
        if (cls, ce) in LOCKS:
            l = LOCKS[(cls, ce)]
            if l in ctx.held:
                raise Unsupported("with-block on %s nested in a with-block on the same lock" % l)
            return [("SWith", l, compile_block(s.body, ctx.sub(held=ctx.held + (l,))))]
        if cls == TE and ce == "self._shutdown.ensure_alive()":
            if ctx.depth > 4:
                raise Unsupported("inlining too deep")
            gen = ctx.hm["ensure_alive"]
            if "LG" in ctx.held:
                raise Unsupported("ensure_alive nested")
            inner = compile_block(s.body, ctx.sub(held=ctx.held + ("LG",)))
            return compile_block(gen.body, ctx.sub(cls=HELPER, depth=ctx.depth + 1, bound=set(), yield_body={"body": inner, "used": False},
                                                   in_for=False, in_while=False), toplevel=True, want_yield=True)
        raise Unsupported("with `%s` in %s" % (ce[:60], cls))
    if isinstance(s, ast.If):
        pre, c = compile_cond(s.test, ctx)
        # both branches start from the same bindings; what they bind is not visible afterwards
        th = compile_block(s.body, ctx.sub(bound=set(ctx.bound)), may_be_empty=True)
        el = compile_block(s.orelse, ctx.sub(bound=set(ctx.bound)), may_be_empty=True)
        return pre + [("SIf", c, th, el)]
    if isinstance(s, ast.While):
        if not (cls == LOOP and isinstance(s.test, ast.Constant) and s.test.value is True and not s.orelse and last
                and not ctx.in_while and not ctx.held and ctx.depth == 0):
            raise Unsupported("while shape: " + text.split("\n")[0][:60])
        return [("SWhileTrue", compile_block(s.body, ctx.sub(in_while=True)))]
    if isinstance(s, ast.Break):
        if not (ctx.in_while and not ctx.in_for and not ctx.held and ctx.depth == 0):
            raise Unsupported("break outside the top level of the while body")
        return [("SBreak",)]
    if isinstance(s, ast.For):
        if cls == LOOP and U(s.target) == "job" and U(s.iter) == "overdue" and not s.orelse and not ctx.in_for:
            need(ctx, "overdue")
            return [("SForOverdue", compile_block(s.body, ctx.sub(in_for=True, bound=ctx.bound | {"job"})))]
        raise Unsupported("for-loop shape: " + text.split("\n")[0][:60])
    if isinstance(s, ast.Raise):
        e = s.exc
        if s.cause is None and isinstance(e, ast.Call) and isinstance(e.func, ast.Name) and e.func.id == "RuntimeError" \
                and all(isinstance(a, ast.Constant) for a in e.args) and not e.keywords:
            return [("SRaise",)]
        raise Unsupported("raise shape: " + text[:60])
    if isinstance(s, ast.Return):
        v = s.value
        if v is None or (isinstance(v, ast.Constant) and v.value is None):
            return [("SReturn", "ENone")]
        if isinstance(v, ast.Constant) and v.value in (True, False) and isinstance(v.value, bool):
            return [("SReturn", "(EBool %s)" % ("true" if v.value else "false"))]
        vt = U(v)
        if cls == TE and vt == "future":
            need(ctx, "future")
            return [("SReturn", "EFuture")]
        if cls == TE and vt == "self.submit_timeout(self._timeout, *args, **kwargs)" and ctx.depth == 0:
            return [inline(ctx, TE, "submit_timeout", ("timeout", "fn")), ("SReturn", "ELast")]
        if cls == LOOP and vt == "(None, None)":
            return [("SReturn", "ENoEvent")]
        if cls == LOOP and vt == "(executor._jobs_write, wait_time)":
            need(ctx, "wait_time")
            return [("SReturn", "EEventWait")]
        raise Unsupported("return value `%s`" % vt[:60])
    if isinstance(s, ast.Expr) and isinstance(s.value, ast.Yield):
        if ctx.yield_body is None or s.value.value is not None:
            raise Unsupported("yield outside an inlined @contextmanager / with a value")
        if not last:
            raise Unsupported("code after `yield` in the @contextmanager")
        if ctx.yield_body["used"]:
            raise Unsupported("second yield")
        ctx.yield_body["used"] = True          # the box is shared by the sub-contexts of the generator body
        return list(ctx.yield_body["body"])
    # ---- vocabulary of plain statements, keyed by (context, text) ----
    key = (cls, text)

    def is_(c, t):
        return key == (c, N(t))
    if is_(HELPER, "self.is_shutdown = True"):
        return [("SSetGateFlag",)]
    if is_(TE, "delegate_future = self._delegate.submit(fn, *args, **kwargs)") and "delegate_future" not in ctx.bound:
        need(ctx, "fn")
        ctx.bound.add("delegate_future")
        return [("SDelegateSubmit",)]
    if is_(TE, "future = MapFuture(delegate_future)") and "future" not in ctx.bound:
        need(ctx, "delegate_future")
        ctx.bound.add("future")
        return [("SNewMapFuture",)]
    if is_(TE, "future.add_done_callback(self._on_future_done)"):
        need(ctx, "future")
        return [("SAddDoneCbWake",)]
    if is_(TE, "job = Job(future, delegate_future, monotonic() + timeout)") and "job" not in ctx.bound:
        need(ctx, "future", "delegate_future", "timeout")
        ctx.bound.add("job")
        return [("SMkJob",)]
    if is_(TE, "self._jobs.append(job)"):
        need(ctx, "job")
        return [("SJobsAppend",)]
    if is_(TE, "self._jobs_write.set()"):
        return [("SEvSet",)]
    if is_(TE, "self._delegate.shutdown(wait, **_kwargs)"):
        need(ctx, "wait")
        return [("SDelegateShutdown",)]
    if is_(TE, "self._job_thread.join(MAX_TIMEOUT)"):
        return [("SJoinJobThread",)]
    if is_(TE, "cancel_result = job.future.cancel()") and "cancel_result" not in ctx.bound:
        need(ctx, "job")
        ctx.bound.add("cancel_result")
        return [("SFutureCancel",)]
    if is_(LOOP, "(event, wait_time) = cls._job_loop_iter(executor_ref())") and ctx.in_while and ctx.depth == 0:
        need(ctx, "executor_ref")
        out = [inline(ctx, LOOP, "_job_loop_iter", ("executor",))]
        ctx.bound |= {"event", "wait_time"}
        return out
    if is_(LOOP, "event.wait(wait_time)"):
        need(ctx, "event", "wait_time")
        return [("SEvWait",)]
    if is_(LOOP, "event.clear()"):
        need(ctx, "event")
        return [("SEvClear",)]
    if is_(LOOP, "(pending, overdue) = executor._partition_jobs()") and "pending" not in ctx.bound:
        need(ctx, "executor")
        ctx.bound |= {"pending", "overdue"}
        return [("SPartition",)]
    if is_(LOOP, "executor._jobs = pending"):
        need(ctx, "pending")
        return [("SPublishPending",)]
    if is_(LOOP, "executor._do_cancel(job)") and ctx.in_for:
        need(ctx, "job")
        return [inline(ctx, TE, "_do_cancel", ("job",))]
    if is_(LOOP, "wait_time = None") and "wait_time" not in ctx.bound:
        ctx.bound.add("wait_time")
        return [("SWaitNone",)]
    if is_(LOOP, "earliest = min([job.deadline for job in pending])"):
        need(ctx, "pending")
        ctx.bound.add("earliest")
        return [("SEarliest",)]
    if is_(LOOP, "wait_time = max(earliest - monotonic(), 0)"):
        need(ctx, "earliest", "wait_time")
        return [("SWaitClock",)]
    raise Unsupported("statement `%s` in %s" % (text.split("\n")[0][:70], cls))


def compile_block(stmts, ctx, toplevel=False, may_be_empty=False, want_yield=False):
    stmts = list(stmts)
    if toplevel and stmts and is_doc(stmts[0]):
        stmts = stmts[1:]
    out = []
    for i, s in enumerate(stmts):
        last = i == len(stmts) - 1
        if not last and ctx.yield_body is not None and not ctx.yield_body["used"] and contains_yield(s):
            raise Unsupported("code after the block containing `yield` in the @contextmanager")
        out.extend(compile_stmt(s, ctx, last))
    if want_yield and not ctx.yield_body["used"]:
        raise Unsupported("@contextmanager without a reachable yield on the straight path")
    return out


# ------------------------------------------------------------------------------------------------
# printing
# ------------------------------------------------------------------------------------------------
def pp_cond(c):
    return "(CNot %s)" % pp_cond(c[1]) if c[0] == "CNot" else c[0]


def pp_list(items, ind):
    if not items:
        return "[]"
    pad = " " * ind
    return "[ " + (";\n" + pad + "  ").join(pp_stmt(s, ind + 2) for s in items) + " ]"


def pp_stmt(s, ind):
    k = s[0]
    if k == "SWith":
        return "SWith %s\n%s%s" % (s[1], " " * (ind + 2), pp_list(s[2], ind + 2))
    if k == "SIf":
        return "SIf %s\n%s%s\n%s%s" % (pp_cond(s[1]), " " * (ind + 2), pp_list(s[2], ind + 2), " " * (ind + 2), pp_list(s[3], ind + 2))
    if k in ("SCall", "SWhileTrue", "SForOverdue"):
        return "%s\n%s%s" % (k, " " * (ind + 2), pp_list(s[1], ind + 2))
    if k == "SReturn":
        return "SReturn %s" % s[1]
    return k


METHODS = [("submit", TE, ("fn",)), ("submit_timeout", TE, ("timeout", "fn")), ("shutdown", TE, ("wait",)),
           ("_on_future_done", TE, ("future",)), ("_do_cancel", TE, ("job",)), ("_job_loop", LOOP, ("executor_ref",))]
COQNAME = {"submit": "submit_m", "submit_timeout": "submit_timeout_m", "shutdown": "shutdown_m",
           "_on_future_done": "on_future_done_m", "_do_cancel": "do_cancel_m", "_job_loop": "job_loop_m"}


def generate_text():
    tree, helper_tree = parse("timeout.py"), parse("helpers.py")
    ms, hm = check_facts(tree, helper_tree)
    dropped, progs = [], {}
    for name, cls, bound in METHODS:
        # `submit(self, *args, **kwargs)` passes fn inside *args
        ctx = Ctx(cls, ms, hm, dropped, bound=set(bound))
        progs[name] = compile_block(ms[name].body, ctx, toplevel=True)
    out = ["(* GENERATED by tools/timeout2coq.py from more_executors/_impl/timeout.py (TimeoutExecutor.submit, submit_timeout,",
           "   shutdown, _on_future_done, _do_cancel, _job_loop with _job_loop_iter inlined) and more_executors/_impl/helpers.py",
           "   (ShutdownHelper.__call__, ensure_alive; executor_loop checked to be the known transparent wrapper) -- do not edit.",
           "   Regenerated on every check run.  Dropped by the metrics / logging whitelist:"]
    seen = []
    for d in dropped:
        if d not in seen:
            seen.append(d)
            out.append("     " + d.replace("(*", "( *").replace("*)", "* )"))
    out += ["*)", "From Coq Require Import List.", "Import ListNotations.", "From ME Require Import Model.TimeoutIR.", ""]
    for name, _, _ in METHODS:
        out += ["Definition %s : list stmt :=" % COQNAME[name], "  " + pp_list(progs[name], 2) + ".", ""]
    return "\n".join(out)


def generate(name=NAME):
    """entry point for tools/pyk2coq.py (raises Unsupported)"""
    try:
        text = generate_text()
    except Unsupported:
        raise
    except (SyntaxError, IndexError, AttributeError, KeyError, ValueError, TypeError, OSError) as e:
        raise Unsupported("%s: %s" % (type(e).__name__, e))
    K.emit(name, text)


def main():
    try:
        generate()
        print("generated coq/Gen/%s" % NAME)
        sys.exit(0)
    except Unsupported as e:
        msg = "TRANSLATOR-FAIL-CLOSED: %s" % e
        for ext in (".vo", ".vok", ".vos", ".glob"):
            q = os.path.join(OUT, NAME[:-2] + ext)
            if os.path.exists(q):
                os.remove(q)
        K.emit(NAME, "(* %s *)\nDefinition translator_failed_closed : True := 0.\n" % msg.replace("*)", "* )").replace("(*", "( *")[:400])
        print("%s: %s" % (NAME, msg))
        sys.exit(2)


if __name__ == "__main__":
    main()
