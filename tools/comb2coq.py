#!/usr/bin/env python3
"""Fail-closed translator: the CONCURRENT PROGRAMS of the combinator operations

    futures/bool.py   f_or / f_and (wrappers), BoolOperation.__init__, BoolOperation.handle_done
    futures/zip.py    f_zip (wrapper), Zipper.__init__, Zipper.handle_done
    futures/base.py   chain_cancel (and the lambda it registers), notify_cancel, weak_callback

-> the imperative IR of coq/Model/CombIR.v, emitted as Gallina in coq/Gen/CombSkel.v.

What is translated structurally: `with self.lock:` blocks, `if <cond>:` over a small vocabulary of conditions,
`return`, the two `for` loops over the arguments (constructor) and over cancel_futures, `try: ... except RuntimeError: pass`,
the conditional expression of the chain_cancel lambda, and plain statements drawn from a vocabulary keyed by
(function, Python text of the statement).  Calls of helpers are inlined after their definition has been checked
(chain_cancel -> f_outer.add_done_callback(weak_callback(<lambda>)); weak_callback(x) is x called once).

The decision kernels are NOT re-translated: `self.get_state_update(f)` becomes SBoolKernel and the elif-chain of
Zipper.handle_done under `if self.done: pass` becomes SZipKernel; the IR semantics calls the functions that
tools/pyk2coq.py regenerates from the same source (Gen/BoolGen.v or_update / and_update, Gen/ZipGen.v zip_update).
This translator checks that the statement it replaces is exactly the one pyk2coq's kernel is generated from
(the single `if` statement of the with-body for zip; a method named get_state_update overridden by OrOperation and
AndOperation only, for bool).

Dropped, EXPLICITLY and listed in the generated file: track_future(...) (metrics; returns its argument).
Nothing else is dropped: anything outside the subset stops with TRANSLATOR-FAIL-CLOSED (exit 2).

Usage: python3 tools/comb2coq.py          (VERIF_REPO=<dir> to read another checkout; default /repo)
Registered in tools/pyk2coq.py's KERNELS list, so `bin/check` regenerates Gen/CombSkel.v on every run.
"""
import ast, os, sys

sys.path.insert(0, os.path.dirname(os.path.abspath(__file__)))
from skel2coq import Unsupported, U, N, is_doc, methods, find_class, imported_from   # noqa: E402  (helpers only)

REPO = os.environ.get("VERIF_REPO", "/repo")
SRC = os.path.join(REPO, "more_executors", "_impl")
OUT = os.path.join(os.path.dirname(os.path.dirname(os.path.abspath(__file__))), "coq", "Gen")
NAME = "CombSkel.v"


def parse(rel):
    return ast.parse(open(os.path.join(SRC, rel)).read())


def find_def(tree, name):
    for n in tree.body:
        if isinstance(n, ast.FunctionDef) and n.name == name:
            return n
    raise Unsupported("function %s not found" % name)


def body_of(fn):
    b = list(fn.body)
    if b and is_doc(b[0]):
        b = b[1:]              # the docstring (explicitly skipped)
    return b


FORBIDDEN = (ast.While, ast.AsyncWith, ast.AsyncFor, ast.Await, ast.Global, ast.Nonlocal, ast.FunctionDef, ast.ClassDef,
             ast.Delete, ast.Assert, ast.NamedExpr, ast.Yield, ast.YieldFrom, ast.AugAssign, ast.AnnAssign, ast.Raise)


def no_forbidden_nodes(fn, allow_lambda=False, allow_try=False):
    for n in ast.walk(fn):
        if n is fn:
            continue
        if isinstance(n, FORBIDDEN):
            # the only AugAssign of these functions lives inside the zip kernel, which is pyk2coq's business
            raise Unsupported("%s: construct %s outside the subset" % (fn.name, type(n).__name__))
        if isinstance(n, ast.Lambda) and not allow_lambda:
            raise Unsupported("%s: lambda" % fn.name)
        if isinstance(n, ast.Try) and not allow_try:
            raise Unsupported("%s: try" % fn.name)
        if hasattr(ast, "TryStar") and isinstance(n, ast.TryStar):
            raise Unsupported("%s: try*" % fn.name)


# ------------------------------------------------------------------------------------------------
# facts about the modules (what the names denote); everything is checked, nothing assumed
# ------------------------------------------------------------------------------------------------
def no_rebinding(tree, names):
    """no module-level rebinding of the names the facts rest on (assignment, def, class, import ... as)"""
    seen = {}
    for n in tree.body:
        bound = []
        if isinstance(n, (ast.Assign, ast.AugAssign, ast.AnnAssign)):
            bound = [t.id for t in ast.walk(n) if isinstance(t, ast.Name) and isinstance(t.ctx, ast.Store)]
        elif isinstance(n, (ast.FunctionDef, ast.ClassDef)):
            bound = [n.name]
        elif isinstance(n, (ast.Import, ast.ImportFrom)):
            bound = [(a.asname or a.name).split(".")[0] for a in n.names]
        elif isinstance(n, (ast.For, ast.While, ast.If, ast.With, ast.Try)):
            bound = [t.id for t in ast.walk(n) if isinstance(t, ast.Name) and isinstance(t.ctx, ast.Store)]
        for b in bound:
            if b in names:
                seen[b] = seen.get(b, 0) + 1
    for b, c in seen.items():
        if c > 1:
            raise Unsupported("module-level name %s is bound %d times" % (b, c))


def check_base(base):
    """futures/base.py: weak_callback, chain_cancel, notify_cancel"""
    if not imported_from(base, "concurrent.futures", "Future"):
        raise Unsupported("base.py: Future is not concurrent.futures.Future")
    no_rebinding(base, ("weak_callback", "WeakCallback", "chain_cancel", "notify_cancel", "Future"))
    # weak_callback = WeakCallback; WeakCallback(x)(*a) == x(*a), once
    if N("weak_callback = WeakCallback") not in [U(n) for n in base.body]:
        raise Unsupported("base.py: weak_callback is not WeakCallback")
    wc = find_class(base, "WeakCallback")
    wm = methods(wc)
    if sorted(wm) != ["__call__", "__init__"] or [s for s in wc.body if not isinstance(s, ast.FunctionDef) and not is_doc(s)]:
        raise Unsupported("WeakCallback shape")
    if [U(s) for s in body_of(wm["__init__"])] != [N("self.__delegate = delegate")] or U(wm["__init__"].args) != "self, delegate":
        raise Unsupported("WeakCallback.__init__")
    if [U(s) for s in body_of(wm["__call__"])] != [N("delegate = self.__delegate"), N("del self.__delegate"),
                                                    N("return delegate(*args, **kwargs)")] \
            or U(wm["__call__"].args) != "self, *args, **kwargs":
        raise Unsupported("WeakCallback.__call__ is not a transparent single call")
    for m in wm.values():
        if m.decorator_list:
            raise Unsupported("WeakCallback: decorated method")
    cc = find_def(base, "chain_cancel")
    if cc.decorator_list or U(cc.args) != "f_outer, f_inner":
        raise Unsupported("chain_cancel signature")
    nc = find_def(base, "notify_cancel")
    if nc.decorator_list or U(nc.args) != "f":
        raise Unsupported("notify_cancel signature")
    return cc, nc


def check_common(common):
    """common.py: try_set_result / copy_future_exception / copy_exception set the outcome and swallow InvalidStateError"""
    no_rebinding(common, ("try_set_result", "copy_future_exception", "copy_exception"))
    tsr = find_def(common, "try_set_result")
    want = N("try:\n    future.set_result(result)\nexcept InvalidStateError:\n    LOG.debug(\"%s: can't set result %s\", future, result, exc_info=True)")
    if tsr.decorator_list or U(tsr.args) != "future, result" or [U(s) for s in body_of(tsr)] != [want]:
        raise Unsupported("common.try_set_result is not `try: future.set_result(result) except InvalidStateError: <log>`")
    cfe = find_def(common, "copy_future_exception")
    want = [N("if 'exception_info' in dir(f1):\n    (exception, traceback) = f1.exception_info()\nelse:\n    (exception, traceback) = (f1.exception(), None)"),
            N("copy_exception(f2, exception, traceback)")]
    if cfe.decorator_list or U(cfe.args) != "f1, f2" or [U(s) for s in body_of(cfe)] != want:
        raise Unsupported("common.copy_future_exception shape")
    ce = find_def(common, "copy_exception")
    srcs = [U(s) for s in body_of(ce)]
    want_try = N("try:\n    try:\n        future.set_exception_info(exception, traceback)\n        return\n    except AttributeError:\n        pass\n    future.set_exception(exception)\n"
                 "except InvalidStateError:\n    LOG.debug(\"%s: can't set exception %s\", future, exception, exc_info=True)")
    if ce.decorator_list or U(ce.args) != "future, exception=None, traceback=None" or not srcs or srcs[-1] != want_try:
        raise Unsupported("common.copy_exception shape")


def check_metrics(mtree):
    """track_future(f, **labels) returns f (both the recording and the no-op variant)"""
    for name in ("track_future", "track_future_noop"):
        fn = find_def(mtree, name)
        b = body_of(fn)
        if not b or U(b[-1]) != N("return f") or not U(fn.args).startswith("f, **"):
            raise Unsupported("metrics.%s does not return its argument" % name)
        if any(isinstance(n, ast.Return) for s in b[:-1] for n in ast.walk(s)):
            raise Unsupported("metrics.%s: early return" % name)


def class_only_methods(cls, names, what):
    if sorted(methods(cls)) != sorted(names):
        raise Unsupported("%s has methods %s (expected %s)" % (what, sorted(methods(cls)), sorted(names)))
    for s in cls.body:
        if not (isinstance(s, ast.FunctionDef) or is_doc(s)):
            raise Unsupported("%s: class-level statement %s" % (what, U(s)[:60]))
    for m in methods(cls).values():
        if m.decorator_list:
            raise Unsupported("%s.%s is decorated" % (what, m.name))


def check_bool(tree):
    for mod, name in (("threading", "Lock"), ("concurrent.futures", "Future")):
        if not imported_from(tree, mod, name):
            raise Unsupported("bool.py: %s is not %s.%s" % (name, mod, name))
    for name in ("chain_cancel", "weak_callback", "notify_cancel"):
        if not imported_from(tree, "base", name):
            raise Unsupported("bool.py: %s is not .base.%s" % (name, name))
    for name in ("copy_future_exception", "try_set_result"):
        if not imported_from(tree, "common", name):
            raise Unsupported("bool.py: %s is not ..common.%s" % (name, name))
    if not imported_from(tree, "check", "ensure_futures") or not imported_from(tree, "metrics", "track_future"):
        raise Unsupported("bool.py: ensure_futures / track_future imports")
    no_rebinding(tree, ("Lock", "Future", "chain_cancel", "weak_callback", "notify_cancel", "copy_future_exception", "try_set_result",
                        "BoolOperation", "OrOperation", "AndOperation", "f_or", "f_and", "ensure_futures", "track_future"))
    bo = find_class(tree, "BoolOperation")
    if [U(b) for b in bo.bases] != ["object"]:
        raise Unsupported("BoolOperation bases")
    class_only_methods(bo, ["__init__", "get_state_update", "handle_done"], "BoolOperation")
    for sub in ("OrOperation", "AndOperation"):
        c = find_class(tree, sub)
        if [U(b) for b in c.bases] != ["BoolOperation"]:
            raise Unsupported("%s is not a direct subclass of BoolOperation" % sub)
        class_only_methods(c, ["get_state_update"], sub)       # __init__ and handle_done are inherited
        if U(methods(c)["get_state_update"].args) != "self, f":
            raise Unsupported("%s.get_state_update signature" % sub)
    bm = methods(bo)
    if U(bm["__init__"].args) != "self, fs" or U(bm["handle_done"].args) != "self, f":
        raise Unsupported("BoolOperation method signatures")
    return bm


def check_zip(tree):
    for mod, name in (("threading", "Lock"), ("concurrent.futures", "Future"), ("functools", "partial")):
        if not imported_from(tree, mod, name):
            raise Unsupported("zip.py: %s is not %s.%s" % (name, mod, name))
    names = {}
    for n in tree.body:
        if isinstance(n, ast.ImportFrom):
            for a in n.names:
                names[a.asname or a.name] = (n.module, a.name)
    want = {"chain_cancel": ("base", "chain_cancel"), "weak_callback": ("base", "weak_callback"), "notify_cancel": ("base", "notify_cancel"),
            "f_return": ("base", "f_return"), "copy_future_exception": ("more_executors._impl.common", "copy_future_exception"),
            "try_set_result": ("more_executors._impl.common", "try_set_result"), "ensure_futures": ("check", "ensure_futures"),
            "track_future": ("metrics", "track_future")}
    for k, v in want.items():
        if names.get(k) != v:
            raise Unsupported("zip.py: %s is imported from %s (expected %s)" % (k, names.get(k), v))
    no_rebinding(tree, tuple(want) + ("Lock", "Future", "partial", "Zipper", "f_zip", "maketuple"))
    z = find_class(tree, "Zipper")
    if [U(b) for b in z.bases] != ["object"]:
        raise Unsupported("Zipper bases")
    class_only_methods(z, ["__init__", "handle_done"], "Zipper")
    zm = methods(z)
    if U(zm["__init__"].args) != "self, fs" or U(zm["handle_done"].args) != "self, index, f":
        raise Unsupported("Zipper method signatures")
    return zm


# ------------------------------------------------------------------------------------------------
# compiler: python statements -> IR terms (python tuples)
# ------------------------------------------------------------------------------------------------
class Ctx(object):
    """fn: which function body is being compiled; loopvar: the variable of the enclosing constructor loop"""

    def __init__(self, fn, dropped, loopvar=None, idxvar=None, under_lock=False):
        self.fn, self.dropped, self.loopvar, self.idxvar, self.under_lock = fn, dropped, loopvar, idxvar, under_lock

    def sub(self, **kw):
        d = dict(fn=self.fn, dropped=self.dropped, loopvar=self.loopvar, idxvar=self.idxvar, under_lock=self.under_lock)
        d.update(kw)
        return Ctx(**d)


LOCALS = {"set_result": "LSetResult", "set_exception": "LSetException", "cancel": "LCancel"}
HANDLE_LOCALS = {"bool_handle": ("set_result", "set_exception"), "zip_handle": ("set_result", "set_exception", "cancel")}


def compile_cond(e, ctx):
    text = U(e)
    if ctx.fn in ("bool_handle", "zip_handle"):
        if text == "self.done":
            if not ctx.under_lock:
                raise Unsupported("%s: self.done read outside the lock" % ctx.fn)
            return ("CDone",)
        if text in HANDLE_LOCALS[ctx.fn]:
            return ("CLocal", LOCALS[text])
    if ctx.fn in ("f_or", "f_and") and text == "not fs":
        return ("CNoRest",)
    if ctx.fn == "f_zip" and text == "not fs":
        return ("CNoArgs",)
    raise Unsupported("condition `%s` in %s" % (text[:60], ctx.fn))


def chain_cancel_inline(cc, outer_text, inner_text, ctx):
    """chain_cancel(<outer>, <inner>) with the definition cc inlined; -> IR statements"""
    b = body_of(cc)
    if len(b) != 1:
        raise Unsupported("chain_cancel body")
    s = b[0]
    ok = isinstance(s, ast.Expr) and isinstance(s.value, ast.Call) and U(s.value.func) == "f_outer.add_done_callback" \
        and len(s.value.args) == 1 and not s.value.keywords
    if ok:
        a = s.value.args[0]
        ok = isinstance(a, ast.Call) and U(a.func) == "weak_callback" and len(a.args) == 1 and not a.keywords \
            and isinstance(a.args[0], ast.Lambda)
    if not ok:
        raise Unsupported("chain_cancel is not f_outer.add_done_callback(weak_callback(lambda ...))")
    if outer_text != "self.out" or inner_text != ctx.loopvar:
        raise Unsupported("chain_cancel(%s, %s): expected (self.out, %s)" % (outer_text, inner_text, ctx.loopvar))
    return [("SOutAddCb", "CbChain")]


def chain_lambda_prog(cc):
    """the callback chain_cancel registers on f_outer: lambda f: f_inner.cancel() if f.cancelled() else False"""
    lam = body_of(cc)[0].value.args[0].args[0]
    if U(lam.args) != "f":
        raise Unsupported("chain_cancel lambda signature")
    e = lam.body
    if not isinstance(e, ast.IfExp) or U(e.test) != "f.cancelled()" or U(e.body) != "f_inner.cancel()" \
            or not (isinstance(e.orelse, ast.Constant) and e.orelse.value is False):
        raise Unsupported("chain_cancel lambda body: " + U(e)[:70])
    return [("SIfOutCancelled", [("SCancelInner",)], [])]


def notify_prog(nc):
    """notify_cancel(f): if f.cancelled(): try: f.set_running_or_notify_cancel() except RuntimeError: pass"""
    no_forbidden_nodes(nc, allow_try=True)

    def stmts(ss):
        out = []
        for s in ss:
            if isinstance(s, ast.If) and U(s.test) == "f.cancelled()":
                out.append(("SIfOutCancelled", stmts(s.body), stmts(s.orelse)))
            elif isinstance(s, ast.Try):
                if s.orelse or s.finalbody or len(s.handlers) != 1:
                    raise Unsupported("notify_cancel: try shape")
                h = s.handlers[0]
                if h.type is None or U(h.type) != "RuntimeError" or h.name is not None or [U(x) for x in h.body] != ["pass"]:
                    raise Unsupported("notify_cancel: except clause is not `except RuntimeError: pass`")
                out.append(("STryPass", stmts(s.body)))
            elif U(s) == N("f.set_running_or_notify_cancel()"):
                out.append(("SSrnc",))
            else:
                raise Unsupported("statement `%s` in notify_cancel" % U(s).split("\n")[0][:70])
        return out
    return stmts(body_of(nc))


def compile_stmt(s, ctx, facts):
    if is_doc(s):
        raise Unsupported("string expression statement inside a body")
    text = U(s)
    fn = ctx.fn
    if isinstance(s, ast.With):
        if len(s.items) != 1 or s.items[0].optional_vars is not None or U(s.items[0].context_expr) != "self.lock":
            raise Unsupported("with-statement: " + text.split("\n")[0][:60])
        if fn not in ("bool_handle", "zip_handle") or ctx.under_lock:
            raise Unsupported("with self.lock in %s%s" % (fn, " (nested)" if ctx.under_lock else ""))
        return [("SWith", compile_block(s.body, ctx.sub(under_lock=True), facts))]
    if isinstance(s, ast.If):
        if fn == "zip_handle" and ctx.under_lock and U(s.test) == "self.done":
            # `if self.done: pass / elif ...`: the elif-chain is the kernel pyk2coq regenerates as zip_update
            if [U(x) for x in s.body] != ["pass"] or not s.orelse:
                raise Unsupported("Zipper.handle_done: `if self.done:` branch is not `pass` followed by an elif-chain")
            if not (len(s.orelse) == 1 and isinstance(s.orelse[0], ast.If)):
                raise Unsupported("Zipper.handle_done: the else-part of `if self.done` is not a single elif-chain")
            facts["zip_kernel_stmt"] = s
            return [("SIf", ("CDone",), [("SPass",)], [("SZipKernel",)])]
        c = compile_cond(s.test, ctx)
        return [("SIf", c, compile_block(s.body, ctx, facts), compile_block(s.orelse, ctx, facts, may_be_empty=True))]
    if isinstance(s, ast.Return):
        if s.value is None or (isinstance(s.value, ast.Constant) and s.value.value is None):
            if fn in ("bool_handle", "zip_handle"):
                return [("SReturn", "ENone")]
        elif fn in ("f_or", "f_and") and U(s.value) == "f":
            return [("SReturn", "EFirst")]
        elif fn in ("f_or", "f_and") and U(s.value) == "oper.out" and facts.get("oper_bound"):
            return [("SReturn", "EOut")]
        elif fn == "f_zip" and U(s.value) == N("f_return(maketuple([]))"):
            return [("SReturn", "EUnitFuture")]
        elif fn == "f_zip" and U(s.value) == N("track_future(Zipper(fs).out, type='zip')"):
            ctx.dropped.append("f_zip: track_future(<Zipper(fs).out>, type='zip')   (returns its argument)")
            return [("SConstruct",), ("SReturn", "EOut")]
        raise Unsupported("return `%s` in %s" % (U(s.value)[:60] if s.value else "", fn))
    if isinstance(s, ast.For):
        if s.orelse:
            raise Unsupported("for ... else")
        head = "for %s in %s" % (U(s.target), U(s.iter))
        if fn == "bool_init" and head == "for f in fs" and [U(x) for x in s.body] == [N("self.fs[f] = True")] and facts.get("fs_dict_new") \
                and not facts.get("lock_made"):
            return [("SFsFill",)]
        if fn == "bool_init" and head == "for f in fs" and ctx.loopvar is None:
            return [("SForInputs", compile_block(s.body, ctx.sub(loopvar="f"), facts))]
        if fn == "zip_init" and head == "for (idx, future) in enumerate(self.fs)" and ctx.loopvar is None and facts.get("fs_list"):
            return [("SForInputs", compile_block(s.body, ctx.sub(loopvar="future", idxvar="idx"), facts))]
        if fn == "bool_handle" and head == "for to_cancel in cancel_futures" and [U(x) for x in s.body] == [N("to_cancel.cancel()")] \
                and not ctx.under_lock:
            return [("SForCancel",)]
        raise Unsupported("for-loop `%s` in %s" % (head[:60], fn))
    if isinstance(s, ast.Pass):
        return [("SPass",)]
    # ---- plain statements: vocabulary keyed by (function, text) ----
    if fn in ("bool_handle", "zip_handle") and not ctx.under_lock:
        for v in HANDLE_LOCALS[fn]:
            if text == N("%s = False" % v):
                return [("SAssignBool", LOCALS[v], "false")]
        if fn == "bool_handle" and text == N("cancel_futures = set()"):
            return [("SAssignCfEmpty",)]
        if text == N("try_set_result(self.out, f.result())") and fn == "bool_handle":
            return [("STrySetResultF",)]
        if text == N("try_set_result(self.out, maketuple(self.fs))") and fn == "zip_handle":
            return [("STrySetResultTuple",)]
        if text == N("copy_future_exception(f, self.out)"):
            return [("SCopyExc",)]
        if text == N("self.out.cancel()") and fn == "zip_handle":
            return [("SOutCancel",)]
    if fn == "bool_handle" and ctx.under_lock:
        if text == N("self.fs.pop(f, None)"):
            return [("SFsPop",)]
    if fn == "bool_handle" and text == N("(set_result, set_exception, cancel_futures) = self.get_state_update(f)"):
        # where it stands (under the lock or not) is kept: the simulation proof is what judges it
        return [("SBoolKernel",)]
    if fn == "bool_init":
        if text == N("self.fs = {}") and not facts.get("fs_dict_new"):
            facts["fs_dict_new"] = True
            return [("SFsNewDict",)]
    if fn == "zip_init":
        if text == N("self.fs = list(fs)") and not facts.get("fs_list"):
            facts["fs_list"] = True
            return [("SFsInitList",)]
        if text == N("self.count_remaining = len(self.fs)") and facts.get("fs_list"):
            return [("SCountInit",)]
    if fn in ("bool_init", "zip_init") and ctx.loopvar is None:
        if text == N("self.done = False"):
            return [("SDoneInit",)]
        if text == N("self.lock = Lock()"):
            facts["lock_made"] = True
            return [("SLockInit",)]
        if text == N("self.out = Future()") and not facts.get("out_made"):
            facts["out_made"] = True
            return [("SOutInit",)]
        if text == N("self.out.add_done_callback(notify_cancel)") and facts.get("out_made"):
            return [("SOutAddCb", "CbNotify")]
    if fn in ("bool_init", "zip_init") and ctx.loopvar is not None and facts.get("out_made"):
        if isinstance(s, ast.Expr) and isinstance(s.value, ast.Call) and U(s.value.func) == "chain_cancel" \
                and len(s.value.args) == 2 and not s.value.keywords:
            return chain_cancel_inline(facts["chain_cancel"], U(s.value.args[0]), U(s.value.args[1]), ctx)
        if fn == "bool_init" and text == N("%s.add_done_callback(weak_callback(self.handle_done))" % ctx.loopvar):
            return [("SInAddCbHandle",)]
        if fn == "zip_init" and text == N("%s.add_done_callback(weak_callback(partial(self.handle_done, %s)))" % (ctx.loopvar, ctx.idxvar)):
            return [("SInAddCbHandle",)]
    if fn in ("f_or", "f_and"):
        cls = {"f_or": "OrOperation", "f_and": "AndOperation"}[fn]
        if text == N("oper = %s([f] + list(fs))" % cls) and not facts.get("oper_bound"):
            facts["oper_bound"] = True
            return [("SConstruct",)]
        if text == N("track_future(oper.out, type='%s')" % fn[2:]) and facts.get("oper_bound"):
            ctx.dropped.append("%s: %s   (metrics; returns its argument)" % (fn, " ".join(text.split())))
            return []
    raise Unsupported("statement `%s` in %s%s" % (text.split("\n")[0][:70], fn, " (under the lock)" if ctx.under_lock else ""))


def compile_block(stmts, ctx, facts, may_be_empty=False):
    out = []
    for s in stmts:
        out.extend(compile_stmt(s, ctx, facts))
    return out


def check_wrapper(fn, sig):
    if [U(d) for d in fn.decorator_list] != ["ensure_futures"]:
        raise Unsupported("%s: decorators %s (expected @ensure_futures)" % (fn.name, [U(d) for d in fn.decorator_list]))
    if U(fn.args) != sig:
        raise Unsupported("%s signature: %s" % (fn.name, U(fn.args)))
    no_forbidden_nodes(fn)


# ------------------------------------------------------------------------------------------------
# printing
# ------------------------------------------------------------------------------------------------
def pp_cond(c):
    return "(CLocal %s)" % c[1] if c[0] == "CLocal" else c[0]


def pp_list(items, ind):
    if not items:
        return "[]"
    pad = " " * ind
    return "[ " + (";\n" + pad + "  ").join(pp_stmt(s, ind + 2) for s in items) + " ]"


def pp_stmt(s, ind):
    k = s[0]
    pad = " " * (ind + 2)
    if k in ("SWith", "SForInputs", "STryPass"):
        return "%s\n%s%s" % (k, pad, pp_list(s[1], ind + 2))
    if k == "SIf":
        return "SIf %s\n%s%s\n%s%s" % (pp_cond(s[1]), pad, pp_list(s[2], ind + 2), pad, pp_list(s[3], ind + 2))
    if k == "SIfOutCancelled":
        return "SIfOutCancelled\n%s%s\n%s%s" % (pad, pp_list(s[1], ind + 2), pad, pp_list(s[2], ind + 2))
    if k == "SReturn":
        return "SReturn %s" % s[1]
    if k == "SAssignBool":
        return "SAssignBool %s %s" % (s[1], s[2])
    if k == "SOutAddCb":
        return "SOutAddCb %s" % s[1]
    return k


def generate_text():
    base, common, mtree = parse("futures/base.py"), parse("common.py"), parse("metrics/__init__.py")
    btree, ztree = parse("futures/bool.py"), parse("futures/zip.py")
    cc, nc = check_base(base)
    check_common(common)
    check_metrics(mtree)
    bm, zm = check_bool(btree), check_zip(ztree)
    dropped = []
    progs = {}

    for name, fn in (("bool_init", bm["__init__"]), ("bool_handle", bm["handle_done"]), ("zip_init", zm["__init__"]), ("zip_handle", zm["handle_done"])):
        # the AugAssign of Zipper.handle_done lives in the kernel part; checked after compilation
        for n in ast.walk(fn):
            if n is not fn and isinstance(n, tuple(x for x in FORBIDDEN if x is not ast.AugAssign) + (ast.Lambda, ast.Try)):
                raise Unsupported("%s: construct %s outside the subset" % (name, type(n).__name__))
        facts = {"chain_cancel": cc}
        progs[name] = compile_block(body_of(fn), Ctx(name, dropped), facts)
        if name == "zip_handle":
            ks = facts.get("zip_kernel_stmt")
            if ks is None:
                raise Unsupported("Zipper.handle_done: no `if self.done: pass / elif ...` under the lock")
            # this must be THE statement pyk2coq.gen_zip translates: the only statement of the with-body
            w = [s for s in body_of(fn) if isinstance(s, ast.With)]
            if len(w) != 1 or len(w[0].body) != 1 or w[0].body[0] is not ks:
                raise Unsupported("Zipper.handle_done: the with-body is not the single if-chain the kernel is generated from")
            for n in ast.walk(fn):
                if isinstance(n, ast.AugAssign) and not any(n is m for m in ast.walk(ks)):
                    raise Unsupported("zip_handle: augmented assignment outside the kernel")
        else:
            for n in ast.walk(fn):
                if isinstance(n, ast.AugAssign):
                    raise Unsupported("%s: augmented assignment" % name)
    no_forbidden_nodes(cc, allow_lambda=True)
    progs["chain_cb"] = chain_lambda_prog(cc)
    progs["notify_cb"] = notify_prog(nc)
    for name, tree, sig in (("f_or", btree, "f, *fs"), ("f_and", btree, "f, *fs"), ("f_zip", ztree, "*fs")):
        fn = find_def(tree, name)
        check_wrapper(fn, sig)
        progs[name] = compile_block(body_of(fn), Ctx(name, dropped), {})

    out = ["(* GENERATED by tools/comb2coq.py from more_executors/_impl/futures/bool.py (f_or, f_and, BoolOperation.__init__,",
           "   BoolOperation.handle_done), futures/zip.py (f_zip, Zipper.__init__, Zipper.handle_done) and futures/base.py",
           "   (chain_cancel and its lambda, notify_cancel) -- do not edit.  Regenerated on every check run.",
           "   SBoolKernel / SZipKernel stand for self.get_state_update(f) / the elif-chain under `if self.done: pass`:",
           "   the regenerated kernels Gen/BoolGen.v or_update, and_update / Gen/ZipGen.v zip_update.",
           "   Checked, not translated: @ensure_futures on the wrappers (arguments are futures: environment), weak_callback",
           "   (transparent single call), try_set_result / copy_future_exception / copy_exception (set the outcome, swallow",
           "   InvalidStateError).  Dropped by the metrics whitelist:"]
    for d in dropped:
        out.append("     " + d.replace("(*", "( *").replace("*)", "* )"))
    if not dropped:
        out.append("     (nothing)")
    out += ["*)", "From Coq Require Import List.", "Import ListNotations.", "From ME Require Import Model.Comb Model.CombIR.", ""]
    for coqname, key in (("or_wrapper_prog", "f_or"), ("and_wrapper_prog", "f_and"), ("zip_wrapper_prog", "f_zip"),
                         ("bool_init_prog", "bool_init"), ("zip_init_prog", "zip_init"),
                         ("bool_handle_prog", "bool_handle"), ("zip_handle_prog", "zip_handle"),
                         ("chain_cb_prog", "chain_cb"), ("notify_cb_prog", "notify_cb")):
        out += ["Definition %s : list stmt :=" % coqname, "  " + pp_list(progs[key], 2) + ".", ""]
    return "\n".join(out)


def emit(name, text):
    os.makedirs(OUT, exist_ok=True)
    p = os.path.join(OUT, name)
    old = open(p).read() if os.path.exists(p) else None
    if old != text:
        open(p, "w").write(text)


def generate(name=NAME):
    """entry point for tools/pyk2coq.py (raises Unsupported)"""
    try:
        text = generate_text()
    except Unsupported:
        raise
    except (SyntaxError, IndexError, AttributeError, KeyError, ValueError, TypeError, OSError) as e:
        raise Unsupported("%s: %s" % (type(e).__name__, e))
    emit(name, text)


def main():
    try:
        generate()
        print("generated coq/Gen/%s" % NAME)
    except Unsupported as e:
        msg = "TRANSLATOR-FAIL-CLOSED: %s" % e
        for ext in (".vo", ".vok", ".vos", ".glob"):
            q = os.path.join(OUT, NAME[:-2] + ext)
            if os.path.exists(q):
                os.remove(q)
        emit(NAME, "(* %s *)\nDefinition translator_failed_closed : True := 0.\n" % msg.replace("*)", "* )").replace("(*", "( *")[:400])
        print("%s: %s" % (NAME, msg))
        sys.exit(2)


if __name__ == "__main__":
    main()
