#!/usr/bin/env python3
"""Sensitivity of tools/throttle2coq.py + Props/C07_ir.v: apply ONE edit to a scratch copy of /repo (never /repo itself),
regenerate Gen/ThrottleSkel.v with VERIF_REPO=<scratch>, report what the translator says, which of the five conformance
checks evaluate to false and whether Props/C07_ir.vo still builds; afterwards remove the scratch copy, regenerate from /repo
and rebuild.   Usage: python3 tools/throttle2coq_sensitivity.py [edit-name ...]   (no argument: all edits)"""
import os, shutil, subprocess, sys
V = os.path.dirname(os.path.dirname(os.path.abspath(__file__)))
R2 = os.environ.get("SENS_SCRATCH", os.path.join(os.path.dirname(V), "repo2"))
SCR = os.path.join(os.path.dirname(V), "scratch")
IMPL = R2 + "/more_executors/_impl/"


def edit(old, new, fname="throttle.py"):
    p = IMPL + fname
    s = open(p).read()
    assert s.count(old) == 1, (fname, old, s.count(old))
    open(p, "w").write(s.replace(old, new))


def seeded(name):
    def f():
        r = subprocess.run("cd %s && patch -p1 < %s/seeded/%s/patch.diff" % (R2, V, name), shell=True, capture_output=True, text=True)
        assert r.returncode == 0, r.stdout + r.stderr
    return f


PARTIAL = """
        delegate_future.add_done_callback(
            partial(
                self._delegate_future_done, self._log, self._running_count, self._event
            )
        )
"""

MUTS = {
 "i-set-before-decr (C07-m2)": seeded("C07-m2"),
 "ii-lock-only-around-popleft (C07-m4)": seeded("C07-m4"),
 "iii-AtomicInt-without-lock (C07-m7)": seeded("C07-m7"),
 "iv-clear-at-end-of-locked-section (C07-m8)": seeded("C07-m8"),
 "v-release-callback-on-ThrottleFuture-at-submit (C07-m1)": seeded("C07-m1"),
 # further edits
 "vi-submit-set-before-append": lambda: edit("            with self._lock:\n                self._to_submit.append(job)", "            self._event.set()\n            with self._lock:\n                self._to_submit.append(job)"),
 "vii-submit-append-without-lock": lambda: edit("            with self._lock:\n                self._to_submit.append(job)\n                metrics.THROTTLE_QUEUE.labels(executor=self._name).inc()\n                self._log.debug(\"Enqueued: %s\", job)\n",
                                               "            self._to_submit.append(job)\n"),
 "viii-shutdown-set-before-delegate-shutdown": lambda: edit("            self._delegate.shutdown(wait, **_kwargs)\n            self._event.set()\n", "            self._event.set()\n            self._delegate.shutdown(wait, **_kwargs)\n"),
 "ix-block_until_ready-drops-shutdown-recheck": lambda: edit("        while self._block and not self._shutdown.is_shutdown:", "        while self._block:"),
 "x-do_submit-set_delegate-before-add_done_callback": lambda: edit(PARTIAL + "        job.future._set_delegate(delegate_future)\n", "\n        job.future._set_delegate(delegate_future)" + PARTIAL),
 "xi-loop-clear-before-wait": lambda: edit("        event.wait(wait_time)\n        event.clear()\n", "        event.clear()\n        event.wait(wait_time)\n"),
 "xii-loop-incr-before-popleft": lambda: edit("            job = executor._to_submit.popleft()\n            executor._log.debug(\"Will submit: %s\", job)\n            to_submit.append(job)\n",
                                             "            executor._running_count.incr()\n            job = executor._to_submit.popleft()\n            executor._log.debug(\"Will submit: %s\", job)\n            to_submit.append(job)\n")
                                        or edit("            # While not actually running yet, we've committed to running it, so...\n            executor._running_count.incr()\n", ""),
 "xiii-do_submit-inside-the-lock": lambda: edit("    for job in to_submit:\n        executor._do_submit(job)\n", "") or edit("        executor._log.debug(\n            \"Submitting %s, throttling %s\", len(to_submit), len(executor._to_submit)\n        )\n",
                                                "        for job in to_submit:\n            executor._do_submit(job)\n"),
 "xiv-me_cancel-executor-first": lambda: edit("        if self._delegate:\n            return self._delegate.cancel()\n        executor = self._executor\n        return executor and executor._do_cancel(self)\n",
                                              "        executor = self._executor\n        if executor and executor._do_cancel(self):\n            return True\n        if self._delegate:\n            return self._delegate.cancel()\n        return False\n"),
 "xv-eval_throttle-after-the-lock": lambda: edit("    throttle = executor._eval_throttle()\n    to_submit = []\n    with executor._lock:\n", "    to_submit = []\n    with executor._lock:\n        throttle = executor._eval_throttle()\n"),
 "xvi-comment-docstring-log-message-only": lambda: edit("        log.debug(\"Delegate future done: %s\", future)\n", "        # a comment\n        log.debug(\"delegate future is done: %s\", future)\n"),
}

CHECK = r'''
From Coq Require Import List String.
From ME Require Import Model.Throttle Model.ThrottleIR Gen.ThrottleSkel Proofs.ThrottleIR_Conf.
Import ListNotations.
Open Scope string_scope.
Eval vm_compute in [("submit", forallb (conf_ok EnSubmit) fam_submit); ("shutdown", forallb (conf_ok EnShutdown) fam_shutdown);
  ("me_cancel", forallb (conf_ok EnCancel) fam_cancel); ("delegate_future_done", forallb (conf_ok EnCallback) fam_callback);
  ("submit_loop", forallb (conf_ok EnLoop) fam_loop)].
'''


def run(cmd):
    return subprocess.run(cmd, shell=True, capture_output=True, text=True)


def main():
    which = sys.argv[1:] or list(MUTS)
    os.makedirs(SCR, exist_ok=True)
    for name in which:
        if os.path.exists(R2):
            shutil.rmtree(R2)
        shutil.copytree("/repo", R2, ignore=shutil.ignore_patterns(".git", ".tox", "*.pyc", "__pycache__"))
        MUTS[name]()
        print("=== %s" % name)
        r = run("cd %s && VERIF_REPO=%s python3 tools/throttle2coq.py" % (V, R2))
        print("translator: rc=%d %s" % (r.returncode, r.stdout.strip()[:300]))
        if r.returncode == 0:
            r = run("cd %s/coq && timeout 300 make Proofs/ThrottleIR_Conf.vo 2>&1 | tail -3" % V)
            open(SCR + "/sens_check.v", "w").write(CHECK)
            r = run("cd %s/coq && timeout 300 coqc -Q . ME -w -notation-overridden %s/sens_check.v 2>&1 | grep -v WARNING | tr -s ' \\n' ' '" % (V, SCR))
            print("checks:", r.stdout.strip()[:600])
        r = run("cd %s/coq && timeout 600 make Props/C07_ir.vo 2>&1 | grep -E 'Error|error|Nothing|COQC' | head -4 | tr '\\n' ' '" % V)
        print("make Props/C07_ir.vo:", r.stdout.strip()[:400])
        sys.stdout.flush()
    if os.path.exists(R2):
        shutil.rmtree(R2)
    r = run("cd %s && python3 tools/throttle2coq.py && cd coq && timeout 900 make -j3 Props/C07_ir.vo 2>&1 | tail -2" % V)
    print("=== restored from /repo:", r.stdout.strip()[-300:])


if __name__ == "__main__":
    main()
