#!/usr/bin/env python3
"""Sensitivity of tools/map2coq.py + Props/C02_ir.v / C13_ir.v: apply ONE edit to a scratch copy of /repo (never /repo itself),
regenerate Gen/MapSkel.v with VERIF_REPO=<scratch>, report what the translator says, which conformance checks (conf_all per entry
point) evaluate to false, and whether Props/C02_ir.vo / C13_ir.vo still build; afterwards regenerate from /repo and rebuild.
Usage: python3 tools/map2coq_sensitivity.py [edit-name ...]   (no argument: all edits)"""
import os, shutil, subprocess, sys, re
V = os.path.dirname(os.path.dirname(os.path.abspath(__file__)))
R2 = os.environ.get("SENS_SCRATCH", os.path.join(os.path.dirname(V), "repo2"))
TMP = os.environ.get("TMPDIR", "/tmp")
IMPL = R2 + "/more_executors/_impl/"


def edit(fname, old, new):
    p = IMPL + fname
    s = open(p).read()
    assert s.count(old) == 1, (fname, old, s.count(old))
    open(p, "w").write(s.replace(old, new))


MUTS = {
 "i-add_done_callback-done-before-lock (C01-m2)": lambda: edit("common.py",
    "        with self._me_lock:\n            if not self.done():\n                self._me_done_callbacks.append(fn)\n                return\n",
    "        if not self.done():\n            with self._me_lock:\n                self._me_done_callbacks.append(fn)\n                return\n"),
 "ii-cancel-release-after-_me_cancel (C02-m2)": lambda: edit("common.py",
    "            if not self._me_cancel():\n                return False\n            out = super(_Future, self).cancel()\n            if out:\n                self.set_running_or_notify_cancel()\n",
    "            if not self._me_cancel():\n                return False\n        out = super(_Future, self).cancel()\n        if out:\n            self.set_running_or_notify_cancel()\n"),
 "iii-set_result-without-lock (C13-m4)": lambda: edit("map.py",
    "        with self._me_lock:\n            super(MapFuture, self).set_result(result)\n",
    "        super(MapFuture, self).set_result(result)\n"),
 "iv-one-try-around-callback-loop (C18-m1)": lambda: edit("common.py",
    "        for callback in self._me_done_callbacks:\n            try:\n                callback(self)\n            except Exception:\n                LOG.exception(\"exception calling callback for %r\", self)\n",
    "        try:\n            for callback in self._me_done_callbacks:\n                callback(self)\n        except Exception:\n            LOG.exception(\"exception calling callback for %r\", self)\n"),
 "v-_delegate_resolved-result-is-None (C13-m2)": lambda: edit("map.py",
    "            result = self._delegate_failed(delegate)\n            if self.done():\n                return\n",
    "            result = self._delegate_failed(delegate)\n            if result is None:\n                return\n"),
 # further edits
 "vi-_delegate_resolved-drop-done-recheck": lambda: edit("map.py",
    "            result = self._delegate_failed(delegate)\n            if self.done():\n                return\n",
    "            result = self._delegate_failed(delegate)\n"),
 "vii-cancel-done-before-cancelled": lambda: edit("common.py",
    "            if self.cancelled():\n                return True\n            if self.done():\n                return False\n",
    "            if self.done():\n                return self.cancelled()\n"),
 "viii-cancel-callbacks-inside-lock": lambda: edit("common.py",
    "                self.set_running_or_notify_cancel()\n        if out:\n            self._me_invoke_callbacks()\n",
    "                self.set_running_or_notify_cancel()\n                self._me_invoke_callbacks()\n"),
 "ix-_set_delegate-register-inside-lock": lambda: edit("map.py",
    "            self._delegate = delegate\n\n        if delegate:\n            self._delegate.add_done_callback(self._delegate_resolved)\n",
    "            self._delegate = delegate\n\n            if delegate:\n                self._delegate.add_done_callback(self._delegate_resolved)\n"),
 "x-_delegate_resolved-keeps-delegate": lambda: edit("map.py", "        self._set_delegate(None)\n\n        if delegate.cancelled():", "        if delegate.cancelled():"),
 "xi-try_set_result-no-tolerance": lambda: edit("common.py",
    "    try:\n        future.set_result(result)\n    except InvalidStateError:\n        LOG.debug(\"%s: can't set result %s\", future, result, exc_info=True)\n",
    "    future.set_result(result)\n"),
 "xii-flat-on_mapped-delegate-before-flag": lambda: edit("flat_map.py",
    "        self.__flattened = True\n", "        self._set_delegate(result)\n        self.__flattened = True\n") or edit("flat_map.py",
    "        self._error_fn = None\n        self._set_delegate(result)\n", "        self._error_fn = None\n"),
 "xiii-_me_cancel-without-lock": lambda: edit("map.py",
    "        with self._me_lock:\n            if self._delegate:\n                return self._delegate.cancel()\n        return False",
    "        if self._delegate:\n            return self._delegate.cancel()\n        return False"),
 "xiv-error_fn-same-exception-copied-from-exc_info": lambda: edit("map.py",
    "            if ex is inner_ex:\n                # fn raised exactly the same thing:\n                # then copy directly from the future\n                copy_future_exception(delegate, self)\n            else:",
    "            if ex is None:\n                copy_future_exception(delegate, self)\n            else:"),
 "xv-map_fn-result-truthiness": lambda: edit("map.py",
    "        try:\n            self._on_mapped(result)\n", "        try:\n            if result:\n                self._on_mapped(result)\n"),
 "xvi-set_exception-callbacks-before-release": lambda: edit("map.py",
    "            super(MapFuture, self).set_exception(exception)\n        self._me_invoke_callbacks()\n",
    "            super(MapFuture, self).set_exception(exception)\n            self._me_invoke_callbacks()\n"),
 "xvii-comment-docstring-log-message-only": lambda: edit("common.py",
    "    def cancel(self):\n", "    def cancel(self):\n        \"\"\"a docstring\"\"\"\n        # a comment\n") or edit("common.py",
    "exception calling callback for %r\", self)\n\n        # Drop", "callback failed for %r\", self)\n\n        # Drop"),
 "xviii-new-override-in-FlatMapFuture": lambda: edit("flat_map.py",
    "    def _on_mapped(self, result):\n        if self.__flattened:", "    def set_result(self, result):\n        super(FlatMapFuture, self).set_result(result)\n\n    def _on_mapped(self, result):\n        if self.__flattened:"),
}

CHECK = r'''
From Coq Require Import List String.
From ME Require Import Base.Machine Model.MapFut Model.MapIR Gen.MapSkel Proofs.MapIR_Conf.
Import ListNotations.
Open Scope string_scope.
Eval vm_compute in ("conf", map conf_all [EnNew; EnCancel; EnAddCb; EnResolved 0; EnResolved 1; EnResolved 2]).
'''
NAMES = ["new", "cancel", "add_done_callback", "resolved(result)", "resolved(exception)", "resolved(cancel)"]


def run(cmd, **kw):
    return subprocess.run(cmd, shell=True, capture_output=True, text=True, **kw)


def main():
    which = sys.argv[1:] or list(MUTS)
    for name in which:
        if os.path.exists(R2):
            shutil.rmtree(R2)
        shutil.copytree("/repo", R2, ignore=shutil.ignore_patterns(".git", ".tox", "*.pyc", "__pycache__"))
        MUTS[name]()
        before = open(V + "/coq/Gen/MapSkel.v").read()
        r = run("cd %s && VERIF_REPO=%s python3 tools/map2coq.py" % (V, R2))
        print("=== %s" % name)
        tr = r.stdout.strip()
        print("   translator:", tr[:300])
        if "FAIL-CLOSED" not in tr:
            same = open(V + "/coq/Gen/MapSkel.v").read() == before
            print("   generated text:", "IDENTICAL" if same else "changed")
            c0 = run("cd %s/coq && timeout 300 coqc -Q . ME Gen/MapSkel.v && timeout 600 coqc -Q . ME Proofs/MapIR_Conf.v" % V)
            if c0.returncode != 0:
                print("   Gen/MapSkel.v / Proofs/MapIR_Conf.v do not compile:", " ".join((c0.stdout + c0.stderr).split())[:200])
            else:
                open(os.path.join(TMP, "map2coq_chk.v"), "w").write(CHECK)
                c = run("cd %s/coq && timeout 900 coqc -Q . ME %s" % (V, os.path.join(TMP, "map2coq_chk.v")))
                txt = " ".join((c.stdout + c.stderr).split())
                m = re.search(r'\[((?:true|false)(?:; (?:true|false))*)\]', txt)
                if m:
                    vals = m.group(1).split("; ")
                    bad = [n for n, v in zip(NAMES, vals) if v == "false"]
                    print("   conformance false for:", ", ".join(bad) if bad else "(none: all true)")
                else:
                    print("   check output:", txt[:200])
        m = run("cd %s/coq && timeout 1500 make -j3 Props/C02_ir.vo Props/C13_ir.vo 2>&1 | grep -v '^COQC\\|^COQDEP\\|Closed under' | head -8" % V)
        print("   make Props/C02_ir.vo Props/C13_ir.vo:", " | ".join(x for x in m.stdout.strip().splitlines()[:6])[:300] or "OK (builds)")
    if os.path.exists(R2):
        shutil.rmtree(R2)
    r = run("cd %s && python3 tools/map2coq.py" % V)
    print("restored:", r.stdout.strip())
    m = run("cd %s/coq && timeout 1500 make -j3 Props/C02_ir.vo Props/C13_ir.vo 2>&1 | grep -v '^COQC\\|^COQDEP\\|Closed under' | head -5" % V)
    print("rebuild:", m.stdout.strip() or "OK")


main()
