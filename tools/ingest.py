#!/usr/bin/env python3
"""tools/ingest.py <agent-out-dir> <PROP> <first-index>: copy PROP-a / PROP-b deliverables of a seeding sub-agent into
seeded/PROP-m<k>/ (patch.diff, demo.py, meta.json)"""
import sys, os, shutil, json
out, prop, k = sys.argv[1], sys.argv[2], int(sys.argv[3])
V = os.path.dirname(os.path.dirname(os.path.abspath(__file__)))
for letter in "ab":
    src = os.path.join(out, "%s-%s" % (prop, letter))
    if not os.path.exists(src + ".diff"):
        print("missing", src + ".diff")
        continue
    d = os.path.join(V, "seeded", "%s-m%d" % (prop, k))
    os.makedirs(d, exist_ok=True)
    shutil.copy(src + ".diff", os.path.join(d, "patch.diff"))
    shutil.copy(src + "-demo.py", os.path.join(d, "demo.py"))
    try:
        m = json.load(open(src + "-meta.json"))
    except Exception as e:
        m = {"property": prop, "summary": "meta unreadable: %s" % e}
    json.dump(m, open(os.path.join(d, "meta.json"), "w"), indent=2)
    print(d)
    k += 1
