#!/usr/bin/env python3
"""Sensitivity of tools/poll2coq.py + Proofs/PollIR_Paths.v / Props/C08_ir.v: apply ONE edit to a scratch copy of /repo (never
/repo itself), regenerate Gen/PollSkel.v with VERIF_REPO=<scratch>, report what the translator says, which conformance checks
evaluate to false and whether Props/C08_ir.vo still builds; afterwards remove the scratch copy, regenerate from /repo and rebuild.
Usage: python3 tools/poll2coq_sensitivity.py [edit-name ...]   (no argument: all edits)"""
import os, shutil, subprocess, sys, re
V = os.path.dirname(os.path.dirname(os.path.abspath(__file__)))
R2 = os.environ.get("SENS_SCRATCH", os.path.join(os.path.dirname(V), "repo2"))
TMP = os.environ.get("TMPDIR", "/tmp")
IMPL = R2 + "/more_executors/_impl/"


def edit(fname, old, new):
    p = IMPL + fname
    s = open(p).read()
    assert s.count(old) == 1, (fname, old, s.count(old))
    open(p, "w").write(s.replace(old, new))


MUTS = {
 "i-poll_loop-clear-before-wait (C08-m1)": lambda: edit("poll.py", "        poll_event.wait(next_sleep)\n        poll_event.clear()\n", "        poll_event.clear()\n        poll_event.wait(next_sleep)\n"),
 "ii-register-clear_delegate-before-lock (C08-m3)": lambda: edit("poll.py", "        with self._lock:\n            self._poll_descriptors.append((future, descriptor))\n            future._clear_delegate()\n            self._poll_event.set()\n",
        "        future._clear_delegate()\n        with self._lock:\n            self._poll_descriptors.append((future, descriptor))\n            self._poll_event.set()\n"),
 "iii-deregister-filter-before-lock (C08-m4)": lambda: edit("poll.py", "        with self._lock:\n            self._poll_descriptors = [\n                (f, d) for (f, d) in self._poll_descriptors if f is not future\n            ]\n",
        "        kept = [\n            (f, d) for (f, d) in self._poll_descriptors if f is not future\n        ]\n        with self._lock:\n            self._poll_descriptors = kept\n"),
 "iv-register-set-before-append (C08-m6)": lambda: edit("poll.py", "            self._poll_descriptors.append((future, descriptor))\n            future._clear_delegate()\n            self._poll_event.set()\n",
        "            self._poll_event.set()\n            self._poll_descriptors.append((future, descriptor))\n            future._clear_delegate()\n"),
 "v-raise-fails-current-descriptors (C08-m2)": lambda: edit("poll.py", "            [d.yield_exception(e) for d in descriptors]\n", "            [d.yield_exception(e) for (_, d) in self._poll_descriptors]\n"),
 # further edits
 "vi-set_result-recheck-dropped": lambda: edit("poll.py", "    def set_result(self, result):\n        with self._me_lock:\n            if self.done():\n                return\n", "    def set_result(self, result):\n        with self._me_lock:\n"),
 "vii-init-own-callback-after-delegates (old P1 order)": lambda: edit("poll.py", "        self.add_done_callback(self._clear_executor)\n        self._delegate.add_done_callback(self._delegate_resolved)\n",
        "        self._delegate.add_done_callback(self._delegate_resolved)\n        self.add_done_callback(self._clear_executor)\n"),
 "viii-snapshot-without-lock": lambda: edit("poll.py", "        with self._lock:\n            descriptors = [d for (_, d) in self._poll_descriptors]\n", "        descriptors = [d for (_, d) in self._poll_descriptors]\n"),
 "ix-cancel-callbacks-under-the-lock": lambda: edit("common.py", "            if out:\n                self.set_running_or_notify_cancel()\n        if out:\n            self._me_invoke_callbacks()\n",
        "            if out:\n                self.set_running_or_notify_cancel()\n                self._me_invoke_callbacks()\n"),
 "x-me_cancel-reads-executor-first": lambda: edit("poll.py", "        if self._delegate and not self._delegate.cancel():\n            return False\n        executor = self._executor\n",
        "        executor = self._executor\n        if self._delegate and not self._delegate.cancel():\n            return False\n"),
 "xi-submit-outside-the-gate": lambda: edit("poll.py", "        with self._shutdown.ensure_alive():\n            delegate_future = self._delegate.submit(*args, **kwargs)\n            out = PollFuture(delegate_future, self)\n",
        "        delegate_future = self._delegate.submit(*args, **kwargs)\n        with self._shutdown.ensure_alive():\n            out = PollFuture(delegate_future, self)\n"),
 "xii-clear_executor-none-before-deregister": lambda: edit("poll.py", "        future._executor._deregister_poll(future)\n        future._executor = None\n", "        ex = future._executor\n        future._executor = None\n        ex._deregister_poll(future)\n"),
 "xiii-add_done_callback-append-outside-lock": lambda: edit("common.py", "        with self._me_lock:\n            if not self.done():\n                self._me_done_callbacks.append(fn)\n                return\n",
        "        if not self.done():\n            with self._me_lock:\n                self._me_done_callbacks.append(fn)\n            return\n"),
 "xiv-run_cancel_fn-swallow-dropped": lambda: edit("poll.py", "        try:\n            return self._cancel_fn(descriptor.result)\n        except Exception:\n            self._log.exception(\n                \"Exception during cancel on %s/%s\", future, descriptor.result\n            )\n            return False\n",
        "        return self._cancel_fn(descriptor.result)\n"),
 "xv-comment-and-docstring-only": lambda: edit("poll.py", "    def _register_poll(self, future, delegate_future):\n", "    def _register_poll(self, future, delegate_future):\n        # a comment\n        \"\"\"a docstring\"\"\"\n"),
 "xvi-wait-clear-dropped-clear": lambda: edit("poll.py", "        poll_event.wait(next_sleep)\n        poll_event.clear()\n", "        poll_event.wait(next_sleep)\n"),
}

CHECK = r'''
From Coq Require Import List String.
From ME Require Import Model.Poll Model.PollIR Gen.PollSkel.
Import ListNotations.
Open Scope string_scope.
Eval vm_compute in ("checks", [
  ("submit", conforms 7 8 9 [IGAcq; IDSubmit] (paths_api body MSubmit));
  ("cancel", conforms 7 8 9 [IAcqM 7; ICancelled 7] (paths_api body MCancel));
  ("notify", conforms 7 8 9 [IEvSet; IRet] (paths_api body MNotify));
  ("delegate_resolved", conforms 7 8 9 (resolved_prog 7) (paths body MDelegateResolved));
  ("yield_result", conforms 7 8 9 (res_prog 7 8) (paths body MYieldResult));
  ("yield_exception", conforms 7 8 9 (exc_prog 7 9) (paths body MYieldException));
  ("clear_executor", conforms 7 8 9 [IXDereg 7] (paths body MClearExecutor));
  ("set_result", conforms 7 8 9 (res_prog 7 8) (paths body MSetResult));
  ("copy_exception", conforms 7 8 9 (exc_prog 7 9) (paths body MCopyException));
  ("set_exception", conforms 7 8 9 [IAcqM 7; IFSetExc 7 9] (paths body MSetException));
  ("clear_delegate", conforms 7 8 9 [IAcqMClr 7; IRelM 7] (paths body MClearDelegate));
  ("register_poll", conforms 7 8 9 (register_prog 7 8) (map (@tl item) (paths body MRegisterPoll)));
  ("poll_loop", loop_conforms 7 8 9 (paths body MPollLoop)) ]).
'''


def run(cmd, **kw):
    return subprocess.run(cmd, shell=True, capture_output=True, text=True, **kw)


def main():
    which = sys.argv[1:] or list(MUTS)
    for name in which:
        if os.path.exists(R2):
            shutil.rmtree(R2)
        shutil.copytree("/repo", R2, ignore=shutil.ignore_patterns(".git", ".tox", "*.pyc", "__pycache__"))
        MUTS[name]()
        r = run("cd %s && VERIF_REPO=%s python3 tools/poll2coq.py" % (V, R2))
        print("=== %s" % name)
        tr = (r.stdout + r.stderr).strip().splitlines()
        tr = [x for x in tr if "conda" not in x]
        print("   translator (exit %d): %s" % (r.returncode, " ".join(tr)[:300]))
        if r.returncode == 0:
            c0 = run("cd %s/coq && timeout 300 coqc -Q . ME -w -notation-overridden Gen/PollSkel.v" % V)
            if c0.returncode != 0:
                print("   Gen/PollSkel.v does not compile:", " ".join((c0.stdout + c0.stderr).split())[:200])
            else:
                open(os.path.join(TMP, "poll2coq_chk.v"), "w").write(CHECK)
                c = run("cd %s/coq && timeout 300 coqc -Q . ME -w -notation-overridden %s" % (V, os.path.join(TMP, "poll2coq_chk.v")))
                txt = " ".join((c.stdout + c.stderr).split())
                bad = re.findall(r'\("(\w+)"(?:%string)?, false\)', txt)
                print("   conformance checks false: %s" % (", ".join(bad) if bad else "none (all true)"))
        m = run("cd %s/coq && timeout 900 make -j3 Props/C08_ir.vo 2>&1 | grep -v '^COQC\\|^COQDEP\\|Closed under\\|conda' | head -8" % V)
        print("   make Props/C08_ir.vo:", " | ".join(x for x in m.stdout.strip().splitlines()[:6])[:400] or "OK (builds)")
    shutil.rmtree(R2)
    r = run("cd %s && python3 tools/poll2coq.py" % V)
    print("restored:", [x for x in r.stdout.strip().splitlines() if "conda" not in x])
    m = run("cd %s/coq && timeout 900 make -j3 Props/C08_ir.vo 2>&1 | grep -v '^COQC\\|^COQDEP\\|Closed under\\|conda' | head -5" % V)
    print("rebuild:", m.stdout.strip() or "OK")


main()
