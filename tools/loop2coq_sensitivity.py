#!/usr/bin/env python3
"""Sensitivity of tools/loop2coq.py + Props/C03_loops.v: apply ONE edit to a scratch copy of /repo (never /repo itself),
regenerate with VERIF_REPO=<scratch>, report what the translator says, which good_loop / good_prod evaluate to false and
whether Props/C03_loops.vo still builds; afterwards remove the scratch copy, regenerate from /repo and rebuild.
Usage: python3 tools/loop2coq_sensitivity.py [edit-name ...]   (no argument: all edits)"""
import os, shutil, subprocess, sys, re
V = os.path.dirname(os.path.dirname(os.path.abspath(__file__)))
R2 = os.environ.get("SENS_SCRATCH", os.path.join(os.path.dirname(V), "repo2"))
TMP = os.environ.get("TMPDIR", "/tmp")
IMPL = R2 + "/more_executors/_impl/"

def edit(fname, old, new):
    p = IMPL + fname
    s = open(p).read()
    assert s.count(old) == 1, (fname, old, s.count(old))
    open(p, "w").write(s.replace(old, new))

MUTS = {
 "a-retry-clear-before-wait": lambda: edit("retry.py", "    event.wait(timeout)\n    event.clear()\n", "    event.clear()\n    event.wait(timeout)\n"),
 "b-throttle-set-before-decr": lambda: edit("throttle.py", "        running_count.decr()\n        event.set()\n", "        event.set()\n        running_count.decr()\n"),
 "c-timeout-drop-set": lambda: edit("timeout.py", "                self._jobs.append(job)\n            self._jobs_write.set()\n", "                self._jobs.append(job)\n"),
 "d-poll-set-before-append": lambda: edit("poll.py", "            self._poll_descriptors.append((future, descriptor))\n            future._clear_delegate()\n            self._poll_event.set()\n",
                                           "            self._poll_event.set()\n            self._poll_descriptors.append((future, descriptor))\n            future._clear_delegate()\n"),
 # further edits (seeded changes of DESIGN.md section 10 and neighbours)
 "e-retry-_retry-wake-before-requeue (C01-m4)": lambda: edit("retry.py", "        self._log.debug(\"Will retry: %s\", job)\n\n        with self._lock:", "        self._log.debug(\"Will retry: %s\", job)\n        self._wake_thread()\n\n        with self._lock:") or edit("retry.py", "            self._append_job(new_job)\n\n        self._wake_thread()\n\n    def _cancel", "            self._append_job(new_job)\n\n    def _cancel"),
 "f-timeout-set-only-if-empty (C03-m2)": lambda: edit("timeout.py", "            self._jobs_write.set()\n            return future", "            if len(self._jobs) == 1:\n                self._jobs_write.set()\n            return future"),
 "g-timeout-loop-clear-before-wait (C09-m1)": lambda: edit("timeout.py", "            event.wait(wait_time)\n            event.clear()\n", "            event.clear()\n            event.wait(wait_time)\n"),
 "h-poll-loop-clear-before-poll (C12-m4)": lambda: edit("poll.py", "        next_sleep = executor._run_poll_fn()\n", "        executor._poll_event.clear()\n        next_sleep = executor._run_poll_fn()\n") or edit("poll.py", "        poll_event.wait(next_sleep)\n        poll_event.clear()\n", "        poll_event.wait(next_sleep)\n"),
 "i-retry-shutdown-test-after-scan-moved-before-clear": lambda: edit("retry.py", "def _submit_wait(event, timeout=None):\n    event.wait(timeout)\n    event.clear()", "def _submit_wait(event, timeout=None):\n    event.wait(timeout)"),
 "j-exit-hook-sets-before-flag (C12-m1)": lambda: edit("event.py", "        self.shutdown = True\n\n        for evt_ref in self.events:\n            evt = evt_ref()\n            if evt:\n                evt.set()\n", "        for evt_ref in self.events:\n            evt = evt_ref()\n            if evt:\n                evt.set()\n        self.shutdown = True\n"),
 "k-throttle-shutdown-no-set": lambda: edit("throttle.py", "            self._delegate.shutdown(wait, **_kwargs)\n            self._event.set()\n", "            self._delegate.shutdown(wait, **_kwargs)\n"),
 "l-timeout-on_future_done-skips-cancelled (C12-m3)": lambda: edit("timeout.py", "        self._jobs_write.set()\n\n    def _do_cancel", "        if not future.cancelled():\n            self._jobs_write.set()\n\n    def _do_cancel"),
 "m-comment-and-docstring-only": lambda: edit("retry.py", "def _submit_wait(event, timeout=None):\n", "def _submit_wait(event, timeout=None):\n    # a comment\n    \"\"\"a docstring\"\"\"\n"),
 "n-retry-deref-after-scan-order (shutdown test dropped)": lambda: edit("retry.py", "        if executor._shutdown.is_shutdown or is_shutdown():\n            break\n\n        executor._log.debug(\"_submit_loop iter\")", "        executor._log.debug(\"_submit_loop iter\")"),
}

CHECK = r'''
From Coq Require Import List String.
From ME Require Import Base.Machine Model.EventLoop Model.LoopIR Gen.LoopSkel.
Import ListNotations.
Open Scope string_scope.
Eval vm_compute in ("loops", map good_loop_all [retry_loop; poll_loop; throttle_loop; timeout_loop]).
Eval vm_compute in ("retry_producers", combine retry_producer_names (map good_prod_all retry_producers)).
Eval vm_compute in ("poll_producers", combine poll_producer_names (map good_prod_all poll_producers)).
Eval vm_compute in ("throttle_producers", combine throttle_producer_names (map good_prod_all throttle_producers)).
Eval vm_compute in ("timeout_producers", combine timeout_producer_names (map good_prod_all timeout_producers)).
'''

def run(cmd, **kw):
    return subprocess.run(cmd, shell=True, capture_output=True, text=True, **kw)

def main():
    which = sys.argv[1:] or list(MUTS)
    for name in which:
        if os.path.exists(R2):
            shutil.rmtree(R2)
        shutil.copytree("/repo", R2, ignore=shutil.ignore_patterns(".git", ".tox", "*.pyc", "__pycache__"))
        MUTS[name]()
        r = run("cd %s && VERIF_REPO=%s python3 tools/pyk2coq.py | grep -v '^generated' ; true" % (V, R2))
        print("=== %s" % name)
        tr = r.stdout.strip()
        failed_loop = "KERNEL-FAILED LoopSkel.v" in tr
        for line in tr.splitlines():
            if "LoopSkel" in line or "Src_" not in line:
                print("   translator:", line[:260])
        if not failed_loop:
            run("cd %s/coq && timeout 300 coqc -Q . ME -w -notation-overridden Gen/LoopSkel.v" % V)
            open(os.path.join(TMP, "loop2coq_chk.v"), "w").write(CHECK)
            c = run("cd %s/coq && timeout 300 coqc -Q . ME -w -notation-overridden %s" % (V, os.path.join(TMP, "loop2coq_chk.v")))
            txt = " ".join((c.stdout + c.stderr).split())
            for m in re.finditer(r'= \("(\w+)"(?:%string)?, (\[.*?\])\) :', txt):
                val = m.group(2)
                if "false" in val:
                    if m.group(1) != "loops":
                        val = ", ".join(x for x in re.findall(r'\("(\w+)"(?:%string)?, false\)', val)) + " = false"
                    print("   %s: %s" % (m.group(1), val))
            if "false" not in txt:
                print("   predicates: all true")
        m = run("cd %s/coq && timeout 900 make -j3 Props/C03_loops.vo 2>&1 | grep -v '^COQC\\|^COQDEP\\|Closed under' | head -8" % V)
        print("   make Props/C03_loops.vo:", " | ".join(x for x in m.stdout.strip().splitlines()[:6])[:400] or "OK (builds)")
    shutil.rmtree(R2)
    # restore
    r = run("cd %s && python3 tools/pyk2coq.py | tail -1" % V)
    print("restored:", r.stdout.strip())
    m = run("cd %s/coq && timeout 900 make -j3 Props/C03_loops.vo 2>&1 | grep -v '^COQC\\|^COQDEP\\|Closed under' | head -5" % V)
    print("rebuild:", m.stdout.strip() or "OK")

main()
