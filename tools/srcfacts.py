#!/usr/bin/env python3
"""Source facts: the code the hand-written machines were written against, regenerated from /repo on every run.

For every module a machine models, every function (and the class-level / module-level statements around them) is
reduced to a NORMAL FORM - the `ast.unparse` text of its definition with docstrings and logging calls removed, so
comments, formatting, docstrings and log messages do not matter - and the digest of that text is emitted as Gallina
(coq/Gen/Src_<module>.v: `facts : list (string * string)`).  The digests the models were validated against are in
the committed file coq/Model/SrcExpected.v; `Proofs/Src_ok_<module>.v` proves `facts = expected` by reflexivity, and
the Props files of every property whose machines model that module depend on it.  A change to a modelled function
therefore breaks a proof obligation of exactly the properties that rest on it; bin/check then searches for a failing
history as for any broken obligation (DESIGN.md section 4).

  tools/srcfacts.py --update      rewrite coq/Model/SrcExpected.v and tools/srcfacts_expected.json from the current tree
                                  (only after the models have been re-validated against that tree)
  tools/srcfacts.py --diff        names of the functions whose normal form differs from the expected one
"""
import ast, sys, os, json, hashlib

VERIF = os.path.dirname(os.path.dirname(os.path.abspath(__file__)))
REPO = os.environ.get("VERIF_REPO", "/repo")
SRC = os.path.join(REPO, "more_executors", "_impl")
EXPECTED_JSON = os.path.join(VERIF, "tools", "srcfacts_expected.json")

# Coq identifier -> source file (relative to more_executors/_impl)
MODULES = {
    "common": "common.py", "map": "map.py", "flat_map": "flat_map.py", "retry": "retry.py", "poll": "poll.py",
    "throttle": "throttle.py", "timeout": "timeout.py", "cos": "cancel_on_shutdown.py", "helpers": "helpers.py",
    "event": "event.py", "fbool": "futures/bool.py", "fzip": "futures/zip.py", "fbase": "futures/base.py",
    "metrics": "metrics/__init__.py", "metrics_prom": "metrics/prometheus.py",
    "fproxy": "futures/proxy.py", "fnocancel": "futures/nocancel.py", "fapply": "futures/apply.py", "fmap": "futures/map.py",
    "fsequence": "futures/sequence.py", "ftimeout": "futures/timeout.py", "fcheck": "futures/check.py",
    "bind": "bind.py", "wrap": "wrap.py", "wrapped": "wrapped.py", "executors": "executors.py", "sync": "sync.py",
    "logwrap": "logwrap.py", "metrics_null": "metrics/null.py", "futures_init": "futures/__init__.py", "asyncio": "asyncio.py",
}

# property -> modules whose code its machines, kernels, families and monitors represent (Props/Cxx_src.v, written by
# `tools/srcfacts.py --props`).  logwrap / metrics_null are executed by every executor operation; futures_init binds the
# public f_* names.
_EXEC = ["logwrap", "metrics_null"]
PROP_MODULES = {
    "C01": ["executors", "wrap", "wrapped", "sync", "common", "map", "flat_map", "retry", "poll", "throttle", "timeout", "cos", "helpers"] + _EXEC,
    "C02": ["common", "map", "flat_map", "fbool", "fzip", "fbase", "poll", "throttle", "retry", "fmap", "fcheck", "timeout", "fproxy",
            "fnocancel", "fapply", "fsequence", "ftimeout", "futures_init"] + _EXEC,
    "C03": ["common", "map", "flat_map", "retry", "poll", "throttle", "timeout", "fbool", "fzip", "fsequence", "fapply", "fmap", "fbase"] + _EXEC,
    "C04": ["common", "map", "retry", "poll", "throttle", "timeout", "cos", "helpers", "fbool", "sync", "flat_map", "fzip", "fbase", "event"] + _EXEC,
    "C05": ["retry", "common", "helpers", "event"] + _EXEC,
    "C06": ["retry", "common", "map", "flat_map", "fbool", "fzip", "fbase", "poll", "throttle", "timeout", "cos", "fnocancel", "fmap",
            "fsequence", "fapply"] + _EXEC,
    "C07": ["throttle", "map", "common", "helpers", "event"] + _EXEC,
    "C08": ["poll", "common", "helpers", "event"] + _EXEC,
    "C09": ["timeout", "map", "common", "ftimeout", "helpers", "event"] + _EXEC,
    "C10": ["cos", "helpers"] + _EXEC,
    "C11": ["helpers", "retry", "poll", "throttle", "timeout", "map", "flat_map", "cos", "sync", "event", "common", "asyncio", "wrapped"] + _EXEC,
    "C12": ["event", "retry", "poll", "throttle", "timeout", "cos", "common", "map", "flat_map", "helpers"] + _EXEC,
    "C13": ["map", "flat_map", "common", "fmap", "futures_init"] + _EXEC,
    "C14": ["fbool", "fbase", "fcheck", "common", "futures_init"] + _EXEC,
    "C15": ["fzip", "fbase", "fsequence", "fcheck", "common", "futures_init"] + _EXEC,
    "C16": ["map", "flat_map", "common", "fapply", "fmap", "fbase", "fcheck", "futures_init"] + _EXEC,
    "C17": ["map", "common", "fproxy", "fnocancel", "futures_init"] + _EXEC,
    "C18": ["common", "map", "flat_map", "poll", "retry", "throttle", "fbool", "fzip", "timeout", "cos", "helpers", "fbase"] + _EXEC,
    "C19": ["bind", "wrap", "wrapped", "executors", "flat_map", "map"] + _EXEC,
    "C20": ["metrics", "retry", "throttle", "metrics_prom", "poll", "timeout", "map", "flat_map", "cos", "sync", "common", "helpers", "wrapped", "asyncio"] + _EXEC,
}


def _is_doc(s):
    return isinstance(s, ast.Expr) and isinstance(s.value, ast.Constant) and isinstance(s.value.value, str)


def _is_log(s):
    if not (isinstance(s, ast.Expr) and isinstance(s.value, ast.Call) and isinstance(s.value.func, ast.Attribute)):
        return False
    if s.value.func.attr not in ("debug", "info", "warning", "warn", "error", "exception", "critical", "log"):
        return False
    if "log" not in ast.unparse(s.value.func.value).lower():
        return False
    # a logging call is dropped only when evaluating its arguments cannot do anything: names, attributes, constants
    # (`self._log.debug("Cancel %s: %s", f, cancel)`); a call, subscript or operator inside them stays in the normal form
    for a in list(s.value.args) + [k.value for k in s.value.keywords]:
        for n in ast.walk(a):
            if not isinstance(n, (ast.Name, ast.Attribute, ast.Constant, ast.Load, ast.Tuple, ast.List)):
                return False
    return True


class _Strip(ast.NodeTransformer):
    def _body(self, body):
        out = [self.visit(s) for s in body if not _is_doc(s) and not _is_log(s)]
        return out or [ast.Pass()]

    def generic_visit(self, node):
        for f in ("body", "orelse", "finalbody"):
            if isinstance(getattr(node, f, None), list) and getattr(node, f) and isinstance(getattr(node, f)[0], ast.stmt):
                setattr(node, f, self._body(getattr(node, f)))
        if isinstance(getattr(node, "handlers", None), list):
            node.handlers = [self.visit(h) for h in node.handlers]
        return node

    visit_FunctionDef = visit_AsyncFunctionDef = visit_ClassDef = visit_If = visit_For = visit_While = visit_With = generic_visit
    visit_Try = visit_ExceptHandler = generic_visit


def normal_forms(relpath):
    """[(name, normal-form text)] for one module: functions (qualified by class), class headers, module-level residue"""
    tree = ast.parse(open(os.path.join(SRC, relpath)).read())
    out = []
    residue = []
    for n in tree.body:
        if _is_doc(n):
            continue
        if isinstance(n, (ast.Import, ast.ImportFrom)):
            # what a name is bound to is part of the meaning of every definition below it (`from threading import Lock as RLock`)
            residue.append(ast.unparse(n))
            continue
        if isinstance(n, (ast.FunctionDef, ast.AsyncFunctionDef)):
            out.append((n.name, ast.unparse(_Strip().visit(n))))
        elif isinstance(n, ast.ClassDef):
            head = ["class %s(%s)" % (n.name, ", ".join(ast.unparse(b) for b in n.bases))]
            for m in n.body:
                if isinstance(m, (ast.FunctionDef, ast.AsyncFunctionDef)):
                    out.append(("%s.%s" % (n.name, m.name), ast.unparse(_Strip().visit(m))))
                elif not _is_doc(m):
                    head.append(ast.unparse(m))
            out.append(("<class %s>" % n.name, "\n".join(head)))
        else:
            residue.append(ast.unparse(n))
    out.append(("<module>", "\n".join(residue)))
    return out


def digest(text):
    return hashlib.sha256(text.encode()).hexdigest()[:20]


def facts(mod):
    return [(name, digest(text)) for (name, text) in normal_forms(MODULES[mod])]


def coq_list(pairs):
    return "[ " + ";\n    ".join('("%s", "%s")' % (n, d) for (n, d) in pairs) + " ]"


def gen_text(mod):
    return ("(* GENERATED by tools/srcfacts.py (through tools/pyk2coq.py) from more_executors/_impl/%s -- do not edit.\n"
            "   Digests of the normal forms (ast.unparse without docstrings and logging calls) of every definition. *)\n"
            "From Coq Require Import List String.\nImport ListNotations.\nOpen Scope string_scope.\n"
            "Definition facts : list (string * string) :=\n  %s.\n" % (MODULES[mod], coq_list(facts(mod))))


def update():
    exp = {}
    lines = ["(* The digests of the source definitions the hand-written machines were validated against (lockstep runs,\n"
             "   seeded changes, DESIGN.md section 4).  Written by `tools/srcfacts.py --update`; the normal-form texts behind the\n"
             "   digests are in tools/srcfacts_expected.json.  Proofs/Src_ok_<module>.v proves that what tools/srcfacts.py finds in\n"
             "   /repo NOW (coq/Gen/Src_<module>.v) equals these. *)",
             "From Coq Require Import List String.", "Import ListNotations.", "Open Scope string_scope.", ""]
    for mod in MODULES:
        nf = normal_forms(MODULES[mod])
        exp[mod] = {n: t for (n, t) in nf}
        lines.append("Definition expected_%s : list (string * string) :=\n  %s.\n" % (mod, coq_list([(n, digest(t)) for (n, t) in nf])))
    open(os.path.join(VERIF, "coq", "Model", "SrcExpected.v"), "w").write("\n".join(lines))
    json.dump(exp, open(EXPECTED_JSON, "w"), indent=1, sort_keys=True)
    for mod in MODULES:
        p = os.path.join(VERIF, "coq", "Proofs", "Src_ok_%s.v" % mod)
        open(p, "w").write("(* source facts of more_executors/_impl/%s: what the translator finds now is what the models were written against *)\n"
                           "From Coq Require Import List String.\nFrom ME Require Import Gen.Src_%s Model.SrcExpected.\n"
                           "Lemma src_%s_ok : Src_%s.facts = expected_%s.\nProof. reflexivity. Qed.\n" % (MODULES[mod], mod, mod, mod, mod))


def diff():
    """{module: [names that differ / are new / are gone]}"""
    if not os.path.exists(EXPECTED_JSON):
        return {}
    exp = json.load(open(EXPECTED_JSON))
    out = {}
    for mod in MODULES:
        try:
            now = dict(normal_forms(MODULES[mod]))
        except Exception as e:       # noqa
            out[mod] = ["<unparsable: %s>" % e]
            continue
        old = exp.get(mod, {})
        ch = sorted(n for n in set(now) | set(old) if now.get(n) != old.get(n))
        if ch:
            out[mod] = ch
    return out


def props():
    """write coq/Props/Cxx_src.v for every property from PROP_MODULES"""
    for prop, mods in sorted(PROP_MODULES.items()):
        low = prop.lower()
        lines = ["(* %s -- source facts.  The machines and monitors this property rests on were written against, and validated on,\n"
                 "   these definitions of /repo; tools/srcfacts.py regenerates their normal-form digests on every run (coq/Gen/Src_*.v).\n"
                 "   Statements only.  Written by `tools/srcfacts.py --props` from PROP_MODULES. *)" % prop,
                 "From Coq Require Import List String.",
                 "From ME Require Import Model.SrcExpected %s\n  %s." % (" ".join("Gen.Src_%s" % m for m in mods),
                                                                       " ".join("Proofs.Src_ok_%s" % m for m in mods)), ""]
        for m in mods:
            lines += ["(* more_executors/_impl/%s *)" % MODULES[m],
                      "Theorem %s_source_%s : Src_%s.facts = expected_%s.\nProof. exact src_%s_ok. Qed." % (low, m, m, m, m)]
        lines.append("")
        lines += ["Print Assumptions %s_source_%s." % (low, m) for m in mods]
        open(os.path.join(VERIF, "coq", "Props", "%s_src.v" % prop), "w").write("\n".join(lines) + "\n")


if __name__ == "__main__":
    if "--props" in sys.argv:
        props()
        print("Props/Cxx_src.v rewritten for %d properties" % len(PROP_MODULES))
    elif "--update" in sys.argv:
        update()
        print("expected source facts rewritten for %d modules" % len(MODULES))
    elif "--diff" in sys.argv:
        d = diff()
        print(json.dumps(d, indent=1))
        sys.exit(1 if d else 0)
    else:
        print(__doc__)
