#!/usr/bin/env python3
"""Sensitivity of tools/timeout2coq.py + Proofs/TimeoutIR_Paths.v / TimeoutIR_Sim.v: apply ONE edit to a scratch copy of /repo
(never /repo itself), run the translator on it (VERIF_REPO=<scratch>) and, when it does not fail closed, compile the generated
text and the two proof files against it IN A TEMPORARY DIRECTORY (logical name SENS; coq/Gen/TimeoutSkel.v and the build are
not touched).  Reports: the translator's verdict, whether the generated text differs, and the first proof obligation that breaks.
Usage: python3 tools/timeout2coq_sensitivity.py [edit-name ...]   (no argument: all edits)"""
import os, shutil, subprocess, sys, re, tempfile
V = os.path.dirname(os.path.dirname(os.path.abspath(__file__)))
R2 = os.environ.get("SENS_SCRATCH", os.path.join(os.path.dirname(V), "repo2"))
IMPL = R2 + "/more_executors/_impl/"
W = "-w -notation-overridden,-deprecated-hint-without-locality"


def edit(fname, old, new):
    p = IMPL + fname
    s = open(p).read()
    assert s.count(old) == 1, (fname, old, s.count(old))
    open(p, "w").write(s.replace(old, new))


MUTS = {
 "i-job_loop-clear-before-wait (C09-m1)": lambda: edit("timeout.py", "            event.wait(wait_time)\n            event.clear()\n", "            event.clear()\n            event.wait(wait_time)\n"),
 "ii-submit_timeout-deadline-before-delegate-submit (C09-m2)": lambda: edit("timeout.py", "            delegate_future = self._delegate.submit(fn, *args, **kwargs)\n", "            deadline = monotonic() + timeout\n            delegate_future = self._delegate.submit(fn, *args, **kwargs)\n") or edit("timeout.py", "job = Job(future, delegate_future, monotonic() + timeout)", "job = Job(future, delegate_future, deadline)"),
 "iii-job_loop_iter-publish-after-the-lock (C09-m3)": lambda: edit("timeout.py", "            (pending, overdue) = executor._partition_jobs()\n            executor._jobs = pending\n", "            (pending, overdue) = executor._partition_jobs()\n        executor._jobs = pending\n"),
 "iv-do_cancel-inside-jobs_lock (C09-m6)": lambda: edit("timeout.py", "            executor._jobs = pending\n\n        executor._log.debug(\"jobs: %s overdue, %s pending\", len(overdue), len(pending))\n\n        for job in overdue:\n            executor._do_cancel(job)\n", "            executor._jobs = pending\n\n            for job in overdue:\n                executor._do_cancel(job)\n\n        executor._log.debug(\"jobs: %s overdue, %s pending\", len(overdue), len(pending))\n"),
 "v-shutdown-set-after-delegate-shutdown (C11-m10)": lambda: edit("timeout.py", "            self._jobs_write.set()\n            self._delegate.shutdown(wait, **_kwargs)\n", "            self._delegate.shutdown(wait, **_kwargs)\n            self._jobs_write.set()\n"),
 "vi-submit_timeout-drop-set": lambda: edit("timeout.py", "                self._jobs.append(job)\n            self._jobs_write.set()\n", "                self._jobs.append(job)\n"),
 "vii-submit_timeout-append-without-the-lock": lambda: edit("timeout.py", "            with self._jobs_lock:\n                self._jobs.append(job)\n", "            self._jobs.append(job)\n"),
 "viii-submit_timeout-set-before-append": lambda: edit("timeout.py", "            with self._jobs_lock:\n                self._jobs.append(job)\n            self._jobs_write.set()\n", "            self._jobs_write.set()\n            with self._jobs_lock:\n                self._jobs.append(job)\n"),
 "ix-submit_timeout-callback-registered-after-append": lambda: edit("timeout.py", "            future.add_done_callback(self._on_future_done)\n            job = Job(future, delegate_future, monotonic() + timeout)\n            with self._jobs_lock:\n                self._jobs.append(job)\n", "            job = Job(future, delegate_future, monotonic() + timeout)\n            with self._jobs_lock:\n                self._jobs.append(job)\n            future.add_done_callback(self._on_future_done)\n"),
 "x-job_loop_iter-wait-computed-before-cancels": lambda: edit("timeout.py", "        for job in overdue:\n            executor._do_cancel(job)\n\n        wait_time = None\n        if pending:\n            earliest = min([job.deadline for job in pending])\n            wait_time = max(earliest - monotonic(), 0)\n", "        wait_time = None\n        if pending:\n            earliest = min([job.deadline for job in pending])\n            wait_time = max(earliest - monotonic(), 0)\n\n        for job in overdue:\n            executor._do_cancel(job)\n"),
 "xi-on_future_done-skips-cancelled (C12-m3)": lambda: edit("timeout.py", "        self._jobs_write.set()\n\n    def _do_cancel", "        if not future.cancelled():\n            self._jobs_write.set()\n\n    def _do_cancel"),
 "xii-ensure_alive-check-outside-the-gate": lambda: edit("helpers.py", "        with self._lock:\n            if self.is_shutdown:\n                raise RuntimeError(\"cannot schedule new futures after shutdown\")\n            yield\n", "        if self.is_shutdown:\n            raise RuntimeError(\"cannot schedule new futures after shutdown\")\n        with self._lock:\n            yield\n"),
 "xiii-comment-and-docstring-only": lambda: edit("timeout.py", "    def _do_cancel(self, job):\n", "    def _do_cancel(self, job):\n        \"\"\"a docstring\"\"\"\n        # a comment\n"),
}


def run(cmd, **kw):
    return subprocess.run(cmd, shell=True, capture_output=True, text=True, **kw)


def enclosing(path, line):
    name = "?"
    for i, l in enumerate(open(path).read().split("\n"), 1):
        m = re.match(r"\s*(Lemma|Theorem|Example|Definition)\s+(\w+)", l)
        if m and i <= line:
            name = m.group(2)
    return name


def main():
    which = sys.argv[1:] or list(MUTS)
    ref = open(os.path.join(V, "coq/Gen/TimeoutSkel.v")).read()
    for name in which:
        if os.path.exists(R2):
            shutil.rmtree(R2)
        shutil.copytree("/repo", R2, ignore=shutil.ignore_patterns(".git", ".tox", "*.pyc", "__pycache__"))
        MUTS[name]()
        print("=== %s" % name)
        r = run("cd %s/tools && VERIF_REPO=%s python3 -c \"import timeout2coq as T\ntry:\n    print(T.generate_text())\nexcept T.Unsupported as e:\n    print('TRANSLATOR-FAIL-CLOSED: %%s' %% e)\"" % (V, R2))
        out = r.stdout
        if "TRANSLATOR-FAIL-CLOSED" in out or r.returncode != 0:
            print("   translator:", (out.strip() or r.stderr.strip().splitlines()[-1])[:300])
            continue
        if out.strip() == ref.strip():
            print("   translator: generated text IDENTICAL to coq/Gen/TimeoutSkel.v (nothing to re-check)")
            continue
        print("   translator: generated text DIFFERS")
        T = tempfile.mkdtemp(prefix="sens_timeout_")
        open(T + "/TimeoutSkel.v", "w").write(out)
        for f in ("TimeoutIR_Paths", "TimeoutIR_Sim"):
            s = open(os.path.join(V, "coq/Proofs/%s.v" % f)).read()
            s = s.replace(" Gen.TimeoutSkel", "").replace("\n  Proofs.TimeoutIR_Paths.", ".")
            s = s.replace("Import ListNotations RecordSetNotations.", "From SENS Require Import TimeoutSkel%s.\nImport ListNotations RecordSetNotations." % (" TimeoutIR_Paths" if f == "TimeoutIR_Sim" else ""), 1)
            open(T + "/%s.v" % f, "w").write(s)
        broken = False
        for f in ("TimeoutSkel", "TimeoutIR_Paths", "TimeoutIR_Sim"):
            c = run("cd %s && timeout 600 coqc -Q %s/coq ME -Q . SENS %s %s.v" % (T, V, W, f))
            if c.returncode != 0:
                txt = (c.stdout + c.stderr)
                m = re.search(r'line (\d+)', txt)
                ln = int(m.group(1)) if m else 0
                err = " ".join(txt.split("Error:")[-1].split())[:160]
                print("   obligation broken: Proofs/%s.v line %d, in `%s`: %s" % (f, ln, enclosing(T + "/%s.v" % f, ln), err))
                broken = True
                break
        if not broken:
            print("   NOT DETECTED: all obligations still compile")
        # second pass: ONLY the obligations whose reference is Model/Timeout.v itself (no hand-written list of operations):
        # the segment lemmas seg_... (instantiated segment = continuation of Timeout.step) and gstep = step
        ps = open(os.path.join(V, "coq/Proofs/TimeoutIR_Paths.v")).read()
        head = ps[:ps.index("(* ---- a path depends on the oracle")]
        head = head.replace(" Gen.TimeoutSkel", "").replace("Import ListNotations RecordSetNotations.", "From SENS Require Import TimeoutSkel.\nImport ListNotations RecordSetNotations.", 1)
        segs = re.findall(r"Lemma seg_(?:submit|iter)_\d.*?Qed\.", ps, re.S)
        open(T + "/TimeoutIR_Paths.v", "w").write(head + "\n".join(segs) + "\n")
        sim = open(T + "/TimeoutIR_Sim.v").read()
        sim = sim[:sim.index("Lemma segments_all")] + sim[sim.index("Theorem src_step0_eq"):]
        open(T + "/TimeoutIR_Sim.v", "w").write(sim)
        ok = True
        for f in ("TimeoutIR_Paths", "TimeoutIR_Sim"):
            c = run("cd %s && timeout 600 coqc -Q %s/coq ME -Q . SENS %s %s.v" % (T, V, W, f))
            if c.returncode != 0:
                txt = (c.stdout + c.stderr)
                m = re.search(r'line (\d+)', txt)
                ln = int(m.group(1)) if m else 0
                print("   machine-side obligations alone: broken in `%s` (%s)" % (enclosing(T + "/%s.v" % f, ln), "segment <> continuation of Timeout.step" if f == "TimeoutIR_Paths" else "gstep <> step"))
                ok = False
                break
        if ok:
            print("   machine-side obligations alone (segments, gstep = step): still compile")
        shutil.rmtree(T)
    if os.path.exists(R2):
        shutil.rmtree(R2)


main()
