#!/usr/bin/env python3
"""Sensitivity of tools/retry2coq.py + Proofs/RetryIR_Paths.v / Props/C05_ir.v: apply ONE edit to a scratch copy of /repo
(never /repo itself), regenerate Gen/RetrySkel.v with VERIF_REPO=<scratch>, report what the translator says and which
path-conformance lemma stops compiling; afterwards remove the scratch copy, regenerate from /repo and rebuild.
Usage: python3 tools/retry2coq_sensitivity.py [edit-name ...]   (no argument: all edits)"""
import os, shutil, subprocess, sys, re
V = os.path.dirname(os.path.dirname(os.path.abspath(__file__)))
R2 = os.environ.get("SENS_SCRATCH", os.path.join(os.path.dirname(V), "repo2"))
IMPL = R2 + "/more_executors/_impl/"


def edit(fname, old, new):
    p = IMPL + fname
    s = open(p).read()
    assert s.count(old) == 1, (fname, old, s.count(old))
    open(p, "w").write(s.replace(old, new))


def sub_now_nolock():
    p = IMPL + "retry.py"
    s = open(p).read()
    a = s.index("        with job.future._me_lock:\n            with self._lock:\n                self._pop_job(job)")
    b = s.index("        delegate_future.add_done_callback(self._delegate_callback)")
    body = s[a:b].split("\n")
    out = []
    for ln in body[1:]:
        out.append(ln[4:] if ln.startswith("    ") else ln)
    open(p, "w").write(s[:a] + "\n".join(out) + s[b:])


MUTS = {
 "i-_submit_now-without-future-lock (C06-m1)": sub_now_nolock,
 "ii-_retry-wake-before-requeue (C01-m4)": lambda: edit("retry.py", "        self._log.debug(\"Will retry: %s\", job)\n\n        with self._lock:", "        self._log.debug(\"Will retry: %s\", job)\n        self._wake_thread()\n\n        with self._lock:") or edit("retry.py", "            self._append_job(new_job)\n\n        self._wake_thread()\n\n    def _cancel", "            self._append_job(new_job)\n\n    def _cancel"),
 "iii-_submit_wait-clear-before-wait (C05-m3)": lambda: edit("retry.py", "    event.wait(timeout)\n    event.clear()\n", "    event.clear()\n    event.wait(timeout)\n"),
 "iv-_delegate_callback-scans-live-list (C05-m4)": lambda: edit("retry.py", "        for job in self._jobs[:]:\n", "        for job in self._jobs:\n"),
 "v-discard-under-executor-lock (C02-m9)": lambda: edit("retry.py", "            executor._pop_job(job)\n            copy_future(job.old_delegate, job.future)\n", "            with executor._lock:\n                executor._pop_job(job)\n                copy_future(job.old_delegate, job.future)\n"),
 "vi-_submit_now-drops-done-recheck": lambda: edit("retry.py", "                if job.future.done():\n                    self._log.debug(\n                        \"future done %s - not submitting to delegate\", job.future\n                    )\n                    return\n", ""),
 "vii-_cancel-no-wake-after-failed-delegate-cancel": lambda: edit("retry.py", "        # Let the submit thread wake up and find that we've set stop_retry\n        self._wake_thread()\n", ""),
 "viii-cancel-callbacks-under-lock (common.py)": lambda: edit("common.py", "            if out:\n                self.set_running_or_notify_cancel()\n        if out:\n            self._me_invoke_callbacks()\n", "            if out:\n                self.set_running_or_notify_cancel()\n                self._me_invoke_callbacks()\n"),
 "ix-terminate_via-callbacks-under-lock": lambda: edit("retry.py", "            method(*args, **kwargs)\n        self._me_invoke_callbacks()\n", "            method(*args, **kwargs)\n            self._me_invoke_callbacks()\n"),
 "x-eval_policy-ignores-stop_retry": lambda: edit("retry.py", "    if job.stop_retry:\n        return (False, None)\n\n    policy = job.policy", "    policy = job.policy"),
 "xi-comment-docstring-log-only": lambda: edit("retry.py", "def _submit_wait(event, timeout=None):\n", "def _submit_wait(event, timeout=None):\n    # a comment\n    \"\"\"a docstring\"\"\"\n") or edit("retry.py", "        self._log.debug(\"Will retry: %s\", job)\n", "        self._log.debug(\"Going to retry: %s\", job)\n"),
}


def run(cmd, **kw):
    return subprocess.run(cmd, shell=True, capture_output=True, text=True, **kw)


def main():
    which = sys.argv[1:] or list(MUTS)
    for name in which:
        if os.path.exists(R2):
            shutil.rmtree(R2)
        shutil.copytree("/repo", R2, ignore=shutil.ignore_patterns(".git", ".tox", "*.pyc", "__pycache__"))
        MUTS[name]()
        r = run("cd %s && VERIF_REPO=%s python3 tools/retry2coq.py" % (V, R2))
        print("=== %s" % name)
        print("   translator:", " ".join((r.stdout + r.stderr).split())[:300], "(exit %d)" % r.returncode)
        m = run("cd %s/coq && timeout 900 make -j3 Props/C05_ir.vo 2>&1 | grep -v '^COQC\\|^COQDEP\\|Closed under' | head -12" % V)
        txt = m.stdout.strip()
        if not txt:
            print("   make Props/C05_ir.vo: OK (builds)")
        else:
            f = re.search(r'File "\./([\w/\.]+)", line (\d+)', txt)
            lemma = ""
            if f and os.path.exists(os.path.join(V, "coq", f.group(1))):
                lines = open(os.path.join(V, "coq", f.group(1))).read().split("\n")
                for k in range(int(f.group(2)) - 1, -1, -1):
                    mm = re.match(r'\s*(Lemma|Theorem|Example|Definition)\s+(\w+)', lines[k])
                    if mm:
                        lemma = mm.group(2)
                        break
            print("   make Props/C05_ir.vo: BROKEN at %s %s :: %s" % (f.group(1) + ":" + f.group(2) if f else "?", lemma, " ".join(txt.split())[:220]))
    if os.path.exists(R2):
        shutil.rmtree(R2)
    r = run("cd %s && python3 tools/retry2coq.py" % V)
    print("restored:", r.stdout.strip())
    m = run("cd %s/coq && timeout 900 make -j3 Props/C05_ir.vo 2>&1 | grep -v '^COQC\\|^COQDEP\\|Closed under' | head -5" % V)
    print("rebuild:", m.stdout.strip() or "OK")


main()
