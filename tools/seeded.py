#!/usr/bin/env python3
"""tools/seeded.py <seeded/NAME> PROP [PROP...]
 1. confirm the seeded change: demo passes on a scratch worktree of /repo HEAD, fails with the patch
 2. apply the patch to /repo, run `bin/check PROP --tier quick` for each PROP, undo the patch
 writes seeded/NAME/result.json"""
import sys, os, subprocess, json, shutil, time

VERIF = os.path.dirname(os.path.dirname(os.path.abspath(__file__)))


def sh(cmd, cwd=None, env=None, timeout=1800):
    p = subprocess.run(cmd, shell=True, cwd=cwd, env=env, stdout=subprocess.PIPE, stderr=subprocess.STDOUT,
                       universal_newlines=True, timeout=timeout)
    return p.returncode, p.stdout


def main():
    d = os.path.abspath(sys.argv[1])
    props = sys.argv[2:]
    name = os.path.basename(d)
    patch = os.path.join(d, "patch.diff")
    res = {"name": name, "props": {}}
    # --- 1. confirm in a scratch worktree
    wt = "/tmp/sw-%s" % name
    sh("git -C /repo worktree remove --force %s" % wt)
    rc, out = sh("git -C /repo worktree add -q --detach %s HEAD" % wt)
    env = dict(os.environ, PYTHONPATH=wt, PYTHONHASHSEED="0")
    demo = os.path.join(d, "demo.py")
    if os.path.exists(demo):
        rc0, o0 = sh("timeout 300 /venv/bin/python %s" % demo, cwd=wt, env=env)
        rca, oa = sh("git apply --3way %s" % patch, cwd=wt)
        rc1, o1 = sh("timeout 300 /venv/bin/python %s" % demo, cwd=wt, env=env)
        res["demo_clean_rc"] = rc0
        res["patch_applies"] = rca == 0
        res["demo_patched_rc"] = rc1
        res["demo_patched_tail"] = o1[-400:]
        res["confirmed"] = (rc0 == 0 and rca == 0 and rc1 != 0)
    sh("git -C /repo worktree remove --force %s" % wt)
    # --- 2. run the checks against the patched /repo
    rc, st = sh("git -C /repo status --porcelain")
    if st.strip():
        print("refusing: /repo not clean:\n" + st)
        sys.exit(2)
    rca, oa = sh("git -C /repo apply --3way %s" % patch)
    if rca != 0:
        res["apply_repo"] = oa[-500:]
        sh("git -C /repo reset -q && git -C /repo checkout -- .")
    else:
        keep = {}
        for p in props:
            ev = os.path.join(VERIF, "evidence", "%s.json" % p)
            if os.path.exists(ev):
                keep[ev] = open(ev).read()
        try:
            for p in props:
                t0 = time.time()
                rc, out = sh("bin/check %s --tier quick" % p, cwd=VERIF)
                res["props"][p] = {"rc": rc, "wall_s": round(time.time() - t0, 1),
                                   "lines": [l for l in out.splitlines() if l.startswith(("VIOLATION", "KNOWN", p))][:6]}
                # keep the replay of the first violation as evidence of detection
                for l in out.splitlines():
                    if l.startswith("VIOLATION"):
                        rp = l.split("replay=")[1].split()[0]
                        if os.path.exists(rp):
                            shutil.copy(rp, os.path.join(d, "detected-by-%s.json" % p))
                        break
        finally:
            sh("git -C /repo reset -q && git -C /repo checkout -- .")
            # the evidence files describe the unchanged tree: put back what the run on the changed tree overwrote
            for ev, body in keep.items():
                open(ev, "w").write(body)
            sh("python3 tools/pyk2coq.py", cwd=VERIF)
    json.dump(res, open(os.path.join(d, "result.json"), "w"), indent=1)
    print(json.dumps(res, indent=1))


if __name__ == "__main__":
    main()
