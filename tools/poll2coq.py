#!/usr/bin/env python3
"""Fail-closed translator: the CONCURRENT PROGRAMS of PollExecutor / PollFuture / PollDescriptor

    poll.py     PollExecutor.submit / notify / _register_poll / _deregister_poll / _run_cancel_fn / _run_poll_fn / shutdown,
                _poll_loop (one iteration), PollFuture.__init__ / _delegate_resolved / _clear_delegate / _clear_executor /
                set_result / set_exception / set_exception_info / _me_cancel, PollDescriptor.yield_result / yield_exception
    common.py   _Future.__init__ (shape only) / _me_invoke_callbacks / add_done_callback / cancel,
                copy_future_exception / copy_exception / try_set_result
    helpers.py  ShutdownHelper.ensure_alive (inlined at `with self._shutdown.ensure_alive():`), ShutdownHelper.__call__

-> the imperative IR of coq/Model/PollIR.v, emitted as Gallina in coq/Gen/PollSkel.v.

Structure kept: `with <lock>:` (lock table keyed by (function, text)), `if` / `else` over a vocabulary of conditions
(`not`, `and`, `or` structurally), `try / except <E>` (+ a `finally` made of dropped statements only), `return`, `break`,
the three for-loops / comprehensions that run code (`for callback in self._me_done_callbacks`, `[d.yield_exception(e) for d in
descriptors]`), calls of translated methods as SCall, plain statements and expressions from vocabularies keyed by
(function, Python text).  The LEAVES are the visible operations of Model/Poll.v's event alphabet (lock acquire / release
through SWith, stdlib Future methods, delegate.submit, Event.set / wait / clear, calls into user code) plus the thread-local
reads / writes the machine's instructions stand for (R... / W... operations: self._delegate, self._executor, _poll_descriptors, ...).

Dropped, EXPLICITLY and listed in the generated file: logging calls with call-free arguments, metrics statements, `assert`
statements whose test is call-free apart from len(), track_future(out, ...) as a statement, and three statements of
copy_exception / _run_cancel_fn that only rebind locals (exact text).  Anything else: TRANSLATOR-FAIL-CLOSED (exit 2).

Usage: python3 tools/poll2coq.py          (VERIF_REPO=<dir> to read another checkout; default /repo)
Registered in tools/pyk2coq.py's KERNELS list, so `bin/check` regenerates Gen/PollSkel.v on every run.
"""
import ast, os, sys

sys.path.insert(0, os.path.dirname(os.path.abspath(__file__)))
from skel2coq import Unsupported, U, N, is_doc, methods, find_class, imported_from   # noqa: E402  (helpers only)

REPO = os.environ.get("VERIF_REPO", "/repo")
SRC = os.path.join(REPO, "more_executors", "_impl")
OUT = os.path.join(os.path.dirname(os.path.dirname(os.path.abspath(__file__))), "coq", "Gen")
NAME = "PollSkel.v"


def parse(rel):
    return ast.parse(open(os.path.join(SRC, rel)).read())


def find_def(tree, name):
    for n in tree.body:
        if isinstance(n, ast.FunctionDef) and n.name == name:
            return n
    raise Unsupported("function %s not found" % name)


def body_of(fn):
    b = list(fn.body)
    if b and is_doc(b[0]):
        b = b[1:]              # the docstring (explicitly skipped)
    return b


FORBIDDEN = (ast.AsyncWith, ast.AsyncFor, ast.Await, ast.Global, ast.Nonlocal, ast.FunctionDef, ast.ClassDef,
             ast.NamedExpr, ast.Yield, ast.YieldFrom, ast.AugAssign, ast.AnnAssign, ast.Lambda)


def no_forbidden_nodes(fn, name, allow_while=False, allow_yield=False):
    for n in ast.walk(fn):
        if n is fn:
            continue
        if isinstance(n, FORBIDDEN) and not (allow_yield and isinstance(n, ast.Yield)):
            raise Unsupported("%s: construct %s outside the subset" % (name, type(n).__name__))
        if isinstance(n, ast.While) and not allow_while:
            raise Unsupported("%s: while" % name)
        if hasattr(ast, "TryStar") and isinstance(n, ast.TryStar):
            raise Unsupported("%s: try*" % name)
        if hasattr(ast, "Match") and isinstance(n, ast.Match):
            raise Unsupported("%s: match" % name)


def no_rebinding(tree, names, what):
    seen = {}
    for n in tree.body:
        bound = []
        if isinstance(n, (ast.FunctionDef, ast.ClassDef)):
            bound = [n.name]
        elif isinstance(n, (ast.Import, ast.ImportFrom)):
            bound = [(a.asname or a.name).split(".")[0] for a in n.names]
        else:
            bound = [t.id for t in ast.walk(n) if isinstance(t, ast.Name) and isinstance(t.ctx, ast.Store)]
        for b in bound:
            if b in names:
                seen[b] = seen.get(b, 0) + 1
    for b, c in seen.items():
        if c > 1 and not (b == "monotonic" and c == 2):      # `try: from time import monotonic / except ImportError: from monotonic import monotonic`
            raise Unsupported("%s: module-level name %s is bound %d times" % (what, b, c))


# ------------------------------------------------------------------------------------------------
# the whitelist of dropped statements
# ------------------------------------------------------------------------------------------------
def pure_arg(e):
    if isinstance(e, (ast.Constant, ast.Name)):
        return True
    if isinstance(e, ast.Attribute):
        return pure_arg(e.value)
    return False


LOGGERS = ("self._log.debug", "self._log.exception", "executor._log.debug", "LOG.exception", "LOG.debug")
# metrics statements whose argument reads the clock: exact text
METRICS_EXACT = ("metrics.POLL_TIME.labels(executor=self._name).inc(monotonic() - now)",)
# statements that only rebind a local / an argument (no visible operation, no field of self): exact text, per function
LOCAL_ONLY = {
    "copy_exception": ("exc_info = sys.exc_info()",
                       "if exception is None:\n    exception = exc_info[1]",
                       "if traceback is None:\n    traceback = exc_info[2]"),
    "run_cancel_fn": ("descriptor = descriptor[0]",),
    "poll_loop": ("poll_event = executor._poll_event",),
}


def is_dropped(s, fn):
    """-> reason or None"""
    text = U(s)
    if isinstance(s, ast.Assert):
        for n in ast.walk(s.test):
            if isinstance(n, ast.Call) and U(n.func) != "len":
                return None
        return "assert"
    if text in [N(t) for t in LOCAL_ONLY.get(fn, ())]:
        return "rebinds a local only"
    if not (isinstance(s, ast.Expr) and isinstance(s.value, ast.Call)):
        return None
    c = s.value
    f = c.func
    if U(f) in LOGGERS:
        if all(pure_arg(a) for a in c.args) and all(pure_arg(k.value) for k in c.keywords):
            return "logging"
        return None
    if text in [N(t) for t in METRICS_EXACT]:
        return "metrics (reads the clock)"
    if isinstance(f, ast.Attribute) and f.attr in ("inc", "dec") and not c.args and not c.keywords:
        base = f.value
        if isinstance(base, ast.Call) and isinstance(base.func, ast.Attribute) and base.func.attr == "labels":
            if not (all(pure_arg(a) for a in base.args) and all(pure_arg(k.value) for k in base.keywords)):
                return None
            base = base.func.value
        if isinstance(base, ast.Attribute) and isinstance(base.value, ast.Name) and base.value.id == "metrics" and base.attr.isupper():
            return "metrics"
    if fn == "submit" and text == N("track_future(out, type='poll', executor=self._name)"):
        return "metrics (returns its argument, unused)"
    return None


# ------------------------------------------------------------------------------------------------
# vocabularies, keyed by (function, python text)
# ------------------------------------------------------------------------------------------------
LOCKS = {
    ("future_add_done_callback", "self._me_lock"): "LM", ("future_cancel", "self._me_lock"): "LM",
    ("set_result", "self._me_lock"): "LM", ("set_exception", "self._me_lock"): "LM", ("set_exception_info", "self._me_lock"): "LM",
    ("clear_delegate", "self._me_lock"): "LM",
    ("register_poll", "self._lock"): "LX", ("deregister_poll", "self._lock"): "LX", ("run_poll_fn", "self._lock"): "LX",
    ("ensure_alive", "self._lock"): "LG", ("gate_call", "self._lock"): "LG",
}

# plain statements -> IR statement (text of the Gallina term)
STMTS = {
    ("submit", "delegate_future = self._delegate.submit(*args, **kwargs)"): "SOp ODSubmit",
    ("submit", "out = PollFuture(delegate_future, self)"): "SCall MInit",
    ("init", "super(PollFuture, self).__init__()"): "SOp WFutInit",
    ("init", "self._delegate = delegate"): "SOp WSetDelegate",
    ("init", "self._executor = executor"): "SOp WSetExecutor",
    ("init", "self.add_done_callback(self._clear_executor)"): "SCall MAddDoneCallback",
    ("init", "self._delegate.add_done_callback(self._delegate_resolved)"): "SOp OAddCbD",
    ("future_add_done_callback", "self._me_done_callbacks.append(fn)"): "SOp WCbAppend",
    ("future_add_done_callback", "fn(self)"): "SCallCb",
    ("invoke_callbacks", "callback(self)"): "SCallCb",
    ("invoke_callbacks", "self._me_done_callbacks = []"): "SOp WCbReset",
    ("future_cancel", "out = super(_Future, self).cancel()"): "SBind LOut OFCancel",
    ("future_cancel", "self.set_running_or_notify_cancel()"): "SOp OFSrnc",
    ("future_cancel", "self._me_invoke_callbacks()"): "SCall MInvokeCallbacks",
    ("delegate_resolved", "copy_future_exception(delegate, self)"): "SCall MCopyFutureException",
    ("delegate_resolved", "self._executor._register_poll(self, self._delegate)"): "SCall MRegisterPoll",
    ("copy_future_exception", "copy_exception(f2, exception, traceback)"): "SCall MCopyException",
    ("copy_exception", "future.set_exception_info(exception, traceback)"): "SCall MSetExceptionInfo",
    ("copy_exception", "future.set_exception(exception)"): "SCall MSetException",
    ("try_set_result", "future.set_result(result)"): "SCall MSetResult",
    ("clear_delegate", "self._delegate = None"): "SOp WClrDelegate",
    ("clear_executor", "future._executor._deregister_poll(future)"): "SCall MDeregisterPoll",
    ("clear_executor", "future._executor = None"): "SOp WExecNone",
    ("set_result", "super(PollFuture, self).set_result(result)"): "SOp OFSetRes",
    ("set_result", "self._me_invoke_callbacks()"): "SCall MInvokeCallbacks",
    ("set_exception", "super(PollFuture, self).set_exception(exception)"): "SOp OFSetExc",
    ("set_exception", "self._me_invoke_callbacks()"): "SCall MInvokeCallbacks",
    ("set_exception_info", "super(PollFuture, self).set_exception_info(exception, traceback)"): "SOp OFSetExcInfo",
    ("set_exception_info", "self._me_invoke_callbacks()"): "SCall MInvokeCallbacks",
    ("me_cancel", "executor = self._executor"): "SBind LExecutor RExecutor",
    ("yield_result", "try_set_result(self.__future, result)"): "SCall MTrySetResult",
    ("yield_exception", "copy_exception(self.__future, exception, traceback)"): "SCall MCopyException",
    ("notify", "self._poll_event.set()"): "SOp OEvSet",
    ("register_poll", "descriptor = PollDescriptor(future, delegate_future.result())"): "SOp WMkDescriptor",
    ("register_poll", "self._poll_descriptors.append((future, descriptor))"): "SOp WDescAppend",
    ("register_poll", "future._clear_delegate()"): "SCall MClearDelegate",
    ("register_poll", "self._poll_event.set()"): "SOp OEvSet",
    ("deregister_poll", "self._poll_descriptors = [(f, d) for (f, d) in self._poll_descriptors if f is not future]"): "SOp WDescFilter",
    ("run_cancel_fn", "descriptor = [d for (f, d) in self._poll_descriptors if f is future]"): "SBind LDescriptor RScanDescs",
    ("run_poll_fn", "descriptors = [d for (_, d) in self._poll_descriptors]"): "SOp WSnapshot",
    ("run_poll_fn", "now = monotonic()"): "SOp WClock",
    ("run_poll_fn", "[d.yield_exception(e) for d in descriptors]"): "SForSnapshot [ SCall MYieldException ]",
    ("shutdown", "self._poll_event.set()"): "SOp OEvSet",
    ("shutdown", "self._delegate.shutdown(wait, **_kwargs)"): "SOp ODShutdown",
    ("shutdown", "self._poll_thread.join(MAX_TIMEOUT)"): "SOp OJoin",
    ("poll_loop", "executor = executor_ref()"): "SBind LExecutor RDeref",
    ("poll_loop", "next_sleep = executor._run_poll_fn()"): "SCall MRunPollFn",
    ("poll_loop", "if not (isinstance(next_sleep, int) or isinstance(next_sleep, float)):\n    next_sleep = executor._default_interval"): "SOp WDefaultInterval",
    ("poll_loop", "del executor"): "SOp WDropRef",
    ("poll_loop", "poll_event.wait(next_sleep)"): "SOp OEvWait",
    ("poll_loop", "poll_event.clear()"): "SOp OEvClear",
    ("gate_call", "self.is_shutdown = True"): "SOp WGateShut",
}

# atomic conditions -> cond term
CONDS = {
    ("ensure_alive", "self.is_shutdown"): "CIs RGateShut",
    ("gate_call", "self.is_shutdown"): "CIs RGateShut",
    ("future_add_done_callback", "self.done()"): "CIs OFDone",
    ("future_cancel", "self.cancelled()"): "CIs OFCancelled",
    ("future_cancel", "self.done()"): "CIs OFDone",
    ("future_cancel", "self._me_cancel()"): "CCall MMeCancel",
    ("future_cancel", "out"): "CLocal LOut",
    ("delegate_resolved", "delegate.cancelled()"): "CIs ODCancelled",
    ("delegate_resolved", "delegate.exception() is not None"): "CIs RDExc",
    ("set_result", "self.done()"): "CIs OFDone",
    ("set_exception_info", "self.done()"): "CIs OFDone",
    ("me_cancel", "self._delegate"): "CIs RDelegate",
    ("me_cancel", "self._delegate.cancel()"): "CIs ODCancel",
    ("me_cancel", "executor"): "CLocal LExecutor",
    ("run_cancel_fn", "self._cancel_fn"): "CIs RHasCfn",
    ("run_cancel_fn", "descriptor"): "CLocal LDescriptor",
    ("shutdown", "self._shutdown()"): "CCall MGateCall",
    ("shutdown", "wait"): "CIs RWaitArg",
    ("poll_loop", "executor"): "CLocal LExecutor",
    ("poll_loop", "executor._shutdown.is_shutdown"): "CIs RGateShut",
    ("poll_loop", "is_shutdown()"): "CIs RGlobalShutdown",
}

# return expressions -> rexp term  (None / missing value are structural)
RETS = {
    ("submit", "out"): "RFuture",
    ("future_cancel", "out"): "RLocal LOut",
    ("run_cancel_fn", "self._cancel_fn(descriptor.result)"): "ROp OUserCancelFn",
    ("run_poll_fn", "self._poll_fn(list(descriptors))"): "ROp OUserPollFn",
}

EXNS = {"AttributeError": "XAttr", "InvalidStateError": "XInvalid", "Exception": "XAny", "RuntimeError": "XRuntime"}


class Ctx(object):
    def __init__(self, fn, dropped, yield_body=None):
        self.fn, self.dropped, self.yield_body = fn, dropped, yield_body


def compile_cond(e, ctx):
    if isinstance(e, ast.UnaryOp) and isinstance(e.op, ast.Not):
        return "CNot (%s)" % compile_cond(e.operand, ctx)
    if isinstance(e, ast.BoolOp) and len(e.values) == 2:
        k = "CAnd" if isinstance(e.op, ast.And) else "COr"
        return "%s (%s) (%s)" % (k, compile_cond(e.values[0], ctx), compile_cond(e.values[1], ctx))
    c = CONDS.get((ctx.fn, U(e)))
    if c is None:
        raise Unsupported("condition `%s` in %s" % (U(e)[:70], ctx.fn))
    return c


def compile_return(v, ctx):
    """-> list of IR statements"""
    if v is None or (isinstance(v, ast.Constant) and v.value is None):
        return [("A", "SReturn RNone")]
    if isinstance(v, ast.Constant) and v.value is True:
        return [("A", "SReturn (RBool true)")]
    if isinstance(v, ast.Constant) and v.value is False:
        return [("A", "SReturn (RBool false)")]
    if ctx.fn == "me_cancel" and U(v) == N("executor and executor._run_cancel_fn(self)"):
        # `return a and f()`: a falsy -> a (falsy) is returned, else f()
        return [("SIf", "CLocal LExecutor", [("A", "SReturn (RCall MRunCancelFn)")], [("A", "SReturn (RBool false)")])]
    r = RETS.get((ctx.fn, U(v)))
    if r is None:
        raise Unsupported("return `%s` in %s" % (U(v)[:70], ctx.fn))
    return [("A", "SReturn (%s)" % r if " " in r else "SReturn %s" % r)]


def compile_stmt(s, ctx, last=False):
    if is_doc(s):
        raise Unsupported("string expression statement inside a body")
    fn = ctx.fn
    text = U(s)
    why = is_dropped(s, fn)
    if why is not None:
        ctx.dropped.append("%s: %s   (%s)" % (fn, " ".join(text.split())[:110], why))
        return []
    # the vocabulary comes first: an `if` that is a known silent statement (the default-interval fallback) is a leaf
    v = STMTS.get((fn, text))
    if v is None:
        for (f, t), val in STMTS.items():
            if f == fn and N(t) == text:
                v = val
    if v is not None:
        return [("A", v)]
    if isinstance(s, ast.With):
        if len(s.items) != 1 or s.items[0].optional_vars is not None:
            raise Unsupported("with-statement shape in %s: %s" % (fn, text[:60]))
        ce = U(s.items[0].context_expr)
        if (fn, ce) in LOCKS:
            return [("SWith", LOCKS[(fn, ce)], compile_block(s.body, ctx))]
        if fn == "submit" and ce == "self._shutdown.ensure_alive()":
            inner = compile_block(s.body, ctx)
            gctx = Ctx("ensure_alive", ctx.dropped, yield_body=inner)
            out = compile_block(body_of(ctx.helper["ensure_alive"]), gctx)
            if gctx.yield_body != "USED":
                raise Unsupported("ensure_alive: no yield on the path")
            return out
        raise Unsupported("with `%s` in %s" % (ce[:60], fn))
    if isinstance(s, ast.If):
        return [("SIf", compile_cond(s.test, ctx), compile_block(s.body, ctx), compile_block(s.orelse, ctx))]
    if isinstance(s, ast.Return):
        return compile_return(s.value, ctx)
    if isinstance(s, ast.Break):
        if fn != "poll_loop":
            raise Unsupported("break in %s" % fn)
        return [("A", "SReturn RNone")]      # the while-loop is the whole body of _poll_loop (checked)
    if isinstance(s, ast.Pass):
        return []
    if isinstance(s, ast.Raise):
        e = s.exc
        if s.cause is None and isinstance(e, ast.Call) and isinstance(e.func, ast.Name) and e.func.id in EXNS \
                and all(isinstance(a, ast.Constant) for a in e.args) and not e.keywords:
            return [("A", "SRaise %s" % EXNS[e.func.id])]
        raise Unsupported("raise shape in %s: %s" % (fn, text[:60]))
    if isinstance(s, ast.Expr) and isinstance(s.value, ast.Yield):
        if ctx.yield_body is None or s.value.value is not None or not last:
            raise Unsupported("yield outside an inlined @contextmanager / with a value / not last")
        if ctx.yield_body == "USED":
            raise Unsupported("second yield")
        body, ctx.yield_body = ctx.yield_body, "USED"
        return list(body)
    if isinstance(s, ast.Try):
        if s.orelse or len(s.handlers) != 1:
            raise Unsupported("try shape in %s" % fn)
        h = s.handlers[0]
        if h.type is None or U(h.type) not in EXNS:
            raise Unsupported("except clause in %s: %s" % (fn, U(h.type) if h.type else "bare"))
        if h.name is not None and not (fn == "run_poll_fn" and h.name == "e"):
            raise Unsupported("except ... as %s in %s" % (h.name, fn))
        fin = compile_block(s.finalbody, ctx)
        if fin:
            raise Unsupported("finally-block with statements that are not dropped, in %s" % fn)
        return [("STry", compile_block(s.body, ctx), EXNS[U(h.type)], compile_block(h.body, ctx))]
    if isinstance(s, ast.For):
        head = "for %s in %s" % (U(s.target), U(s.iter))
        if fn == "invoke_callbacks" and head == "for callback in self._me_done_callbacks" and not s.orelse:
            return [("SForCallbacks", compile_block(s.body, ctx))]
        raise Unsupported("for-loop `%s` in %s" % (head[:60], fn))
    raise Unsupported("statement `%s` in %s" % (text.split("\n")[0][:80], fn))


def compile_block(stmts, ctx):
    out = []
    stmts = list(stmts)
    for i, s in enumerate(stmts):
        out.extend(compile_stmt(s, ctx, last=(i == len(stmts) - 1)))
    return out


# ------------------------------------------------------------------------------------------------
# facts about the modules
# ------------------------------------------------------------------------------------------------
def check_facts(poll, common, helpers):
    for mod, name in (("threading", "RLock"), ("threading", "Thread")):
        if not imported_from(poll, mod, name):
            raise Unsupported("poll.py: %s is not %s.%s" % (name, mod, name))
    for mod, names in (("common", ("_Future", "MAX_TIMEOUT", "copy_exception", "copy_future_exception", "try_set_result")),
                       ("helpers", ("executor_loop", "ShutdownHelper")), ("event", ("get_event", "is_shutdown")),
                       ("metrics", ("metrics", "track_future")), ("logwrap", ("LogWrapper",))):
        for name in names:
            if not imported_from(poll, mod, name):
                raise Unsupported("poll.py: %s is not .%s.%s" % (name, mod, name))
    no_rebinding(poll, ("RLock", "Thread", "_Future", "copy_exception", "copy_future_exception", "try_set_result", "ShutdownHelper",
                        "get_event", "is_shutdown", "metrics", "track_future", "PollFuture", "PollDescriptor", "PollExecutor",
                        "_poll_loop", "monotonic", "executor_loop"), "poll.py")
    if not imported_from(common, "concurrent.futures", "Future") or not imported_from(common, "threading", "RLock"):
        raise Unsupported("common.py: Future / RLock imports")
    no_rebinding(common, ("Future", "RLock", "_Future", "copy_exception", "copy_future_exception", "try_set_result", "LOG"), "common.py")
    if not imported_from(helpers, "threading", "RLock") or not imported_from(helpers, "contextlib", "contextmanager"):
        raise Unsupported("helpers.py: RLock / contextmanager imports")

    pf, pd, pe = find_class(poll, "PollFuture"), find_class(poll, "PollDescriptor"), find_class(poll, "PollExecutor")
    if [U(b) for b in pf.bases] != ["_Future"]:
        raise Unsupported("PollFuture bases")
    if [U(b) for b in pd.bases] != ["object"]:
        raise Unsupported("PollDescriptor bases")
    if [U(b) for b in pe.bases] != ["CanCustomizeBind", "Executor"]:
        raise Unsupported("PollExecutor bases")
    want = {"PollFuture": ["__init__", "_clear_delegate", "_clear_executor", "_delegate_resolved", "_me_cancel", "running",
                           "set_exception", "set_exception_info", "set_result"],
            "PollDescriptor": ["__init__", "result", "yield_exception", "yield_result"],
            "PollExecutor": ["__init__", "_deregister_poll", "_register_poll", "_run_cancel_fn", "_run_poll_fn", "notify", "shutdown", "submit"]}
    deco = {("PollFuture", "_clear_executor"): ["classmethod"], ("PollDescriptor", "result"): ["property"]}
    for cls in (pf, pd, pe):
        if sorted(methods(cls)) != want[cls.name]:
            raise Unsupported("%s has methods %s (expected %s)" % (cls.name, sorted(methods(cls)), want[cls.name]))
        for s in cls.body:
            if not (isinstance(s, ast.FunctionDef) or is_doc(s)):
                raise Unsupported("%s: class-level statement %s" % (cls.name, U(s)[:60]))
        for m in methods(cls).values():
            if [U(d) for d in m.decorator_list] != deco.get((cls.name, m.name), []):
                raise Unsupported("%s.%s: decorators %s" % (cls.name, m.name, [U(d) for d in m.decorator_list]))
    # PollDescriptor.__init__ / .result: the descriptor carries (future, result)
    dm = methods(pd)
    if [U(s) for s in body_of(dm["__init__"])] != [N("self.__future = future"), N("self.__result = result")] or U(dm["__init__"].args) != "self, future, result":
        raise Unsupported("PollDescriptor.__init__ shape")
    if [U(s) for s in body_of(dm["result"])] != [N("return self.__result")]:
        raise Unsupported("PollDescriptor.result shape")
    # PollExecutor.__init__: which objects the attribute names denote
    assigns = {}
    for s in ast.walk(methods(pe)["__init__"]):
        if isinstance(s, ast.Assign):
            for t in s.targets:
                if U(t) in assigns:
                    raise Unsupported("PollExecutor.__init__ assigns %s twice" % U(t))
                assigns[U(t)] = U(s.value)
    for k, v in (("self._delegate", "delegate"), ("self._poll_fn", "poll_fn"), ("self._cancel_fn", "cancel_fn"), ("self._poll_descriptors", "[]"),
                 ("self._poll_event", "get_event()"), ("self._shutdown", "ShutdownHelper()"), ("self._lock", "RLock()"),
                 ("self._default_interval", "default_interval"),
                 ("self._poll_thread", N("Thread(name='PollExecutor-%s' % name, target=_poll_loop, args=(self_ref,))"))):
        if assigns.get(k) != v:
            raise Unsupported("PollExecutor.__init__: %s = %s (expected %s)" % (k, assigns.get(k), v))
    # _Future
    fu = find_class(common, "_Future")
    if [U(b) for b in fu.bases] != ["Future"] or sorted(methods(fu)) != ["__init__", "_me_cancel", "_me_invoke_callbacks", "add_done_callback", "cancel"]:
        raise Unsupported("common._Future shape")
    for m in methods(fu).values():
        if m.decorator_list:
            raise Unsupported("_Future.%s is decorated" % m.name)
    if [U(s) for s in body_of(methods(fu)["__init__"])] != [N("super(_Future, self).__init__()"), N("self._me_done_callbacks = []"), N("self._me_lock = RLock()")]:
        raise Unsupported("_Future.__init__ shape")
    # ShutdownHelper
    sh = find_class(helpers, "ShutdownHelper")
    hm = methods(sh)
    if sorted(hm) != ["__call__", "__init__", "ensure_alive"]:
        raise Unsupported("ShutdownHelper methods")
    if [U(s) for s in body_of(hm["__init__"])] != [N("self._lock = RLock()"), N("self.is_shutdown = False")]:
        raise Unsupported("ShutdownHelper.__init__ shape")
    if [U(d) for d in hm["ensure_alive"].decorator_list] != ["contextmanager"] or hm["__call__"].decorator_list:
        raise Unsupported("ShutdownHelper decorators")
    # copy_future_exception: python 3 branch (stdlib Future has no exception_info)
    cfe = find_def(common, "copy_future_exception")
    want_cfe = [N("if 'exception_info' in dir(f1):\n    (exception, traceback) = f1.exception_info()\nelse:\n    (exception, traceback) = (f1.exception(), None)"),
                N("copy_exception(f2, exception, traceback)")]
    if cfe.decorator_list or U(cfe.args) != "f1, f2" or [U(s) for s in body_of(cfe)] != want_cfe:
        raise Unsupported("common.copy_future_exception shape")
    # _poll_loop: @executor_loop, the body is one `while True:` loop
    pl = find_def(poll, "_poll_loop")
    if [U(d) for d in pl.decorator_list] != ["executor_loop"] or U(pl.args) != "executor_ref":
        raise Unsupported("_poll_loop decorators / signature")
    b = body_of(pl)
    if len(b) != 1 or not isinstance(b[0], ast.While) or U(b[0].test) != "True" or b[0].orelse:
        raise Unsupported("_poll_loop is not a single `while True:` loop")
    for n in ast.walk(b[0]):
        if n is not b[0] and isinstance(n, (ast.While, ast.For, ast.Continue)):
            raise Unsupported("_poll_loop: nested loop / continue")
    return methods(pf), dm, methods(pe), methods(fu), hm, pl


SIGS = {
    "submit": "self, *args, **kwargs", "notify": "self", "register_poll": "self, future, delegate_future", "deregister_poll": "self, future",
    "run_cancel_fn": "self, future", "run_poll_fn": "self", "shutdown": "self, wait=True, **_kwargs",
    "init": "self, delegate, executor", "delegate_resolved": "self, delegate", "clear_delegate": "self", "clear_executor": "cls, future",
    "set_result": "self, result", "set_exception": "self, exception", "set_exception_info": "self, exception, traceback", "me_cancel": "self",
    "yield_result": "self, result", "yield_exception": "self, exception, traceback=None",
    "invoke_callbacks": "self", "future_add_done_callback": "self, fn", "future_cancel": "self",
    "copy_exception": "future, exception=None, traceback=None", "try_set_result": "future, result", "gate_call": "self",
}

ORDER = [("submit_prog", "submit"), ("init_prog", "init"), ("add_done_callback_prog", "future_add_done_callback"),
         ("invoke_callbacks_prog", "invoke_callbacks"), ("cancel_prog", "future_cancel"), ("me_cancel_prog", "me_cancel"),
         ("run_cancel_fn_prog", "run_cancel_fn"), ("delegate_resolved_prog", "delegate_resolved"),
         ("copy_future_exception_prog", "copy_future_exception"), ("copy_exception_prog", "copy_exception"),
         ("try_set_result_prog", "try_set_result"), ("set_result_prog", "set_result"), ("set_exception_prog", "set_exception"),
         ("set_exception_info_prog", "set_exception_info"), ("clear_delegate_prog", "clear_delegate"), ("clear_executor_prog", "clear_executor"),
         ("register_poll_prog", "register_poll"), ("deregister_poll_prog", "deregister_poll"), ("yield_result_prog", "yield_result"),
         ("yield_exception_prog", "yield_exception"), ("notify_prog", "notify"), ("run_poll_fn_prog", "run_poll_fn"),
         ("poll_loop_prog", "poll_loop"), ("gate_call_prog", "gate_call"), ("shutdown_prog", "shutdown")]


# ------------------------------------------------------------------------------------------------
# printing
# ------------------------------------------------------------------------------------------------
def pp_list(items, ind):
    if not items:
        return "[]"
    pad = " " * ind
    return "[ " + (";\n" + pad + "  ").join(pp_stmt(s, ind + 2) for s in items) + " ]"


def pp_stmt(s, ind):
    k = s[0]
    pad = " " * (ind + 2)
    if k == "A":
        return s[1]
    if k == "SWith":
        return "SWith %s\n%s%s" % (s[1], pad, pp_list(s[2], ind + 2))
    if k == "SForCallbacks":
        return "SForCallbacks\n%s%s" % (pad, pp_list(s[1], ind + 2))
    if k == "SIf":
        return "SIf (%s)\n%s%s\n%s%s" % (s[1], pad, pp_list(s[2], ind + 2), pad, pp_list(s[3], ind + 2))
    if k == "STry":
        return "STry\n%s%s\n%s%s\n%s%s" % (pad, pp_list(s[1], ind + 2), pad, s[2], pad, pp_list(s[3], ind + 2))
    raise Unsupported("internal: unknown IR node %s" % k)


def generate_text():
    poll, common, helpers = parse("poll.py"), parse("common.py"), parse("helpers.py")
    fm, dm, em, cm, hm, pl = check_facts(poll, common, helpers)
    fns = {
        "submit": em["submit"], "notify": em["notify"], "register_poll": em["_register_poll"], "deregister_poll": em["_deregister_poll"],
        "run_cancel_fn": em["_run_cancel_fn"], "run_poll_fn": em["_run_poll_fn"], "shutdown": em["shutdown"],
        "init": fm["__init__"], "delegate_resolved": fm["_delegate_resolved"], "clear_delegate": fm["_clear_delegate"],
        "clear_executor": fm["_clear_executor"], "set_result": fm["set_result"], "set_exception": fm["set_exception"],
        "set_exception_info": fm["set_exception_info"], "me_cancel": fm["_me_cancel"],
        "yield_result": dm["yield_result"], "yield_exception": dm["yield_exception"],
        "invoke_callbacks": cm["_me_invoke_callbacks"], "future_add_done_callback": cm["add_done_callback"], "future_cancel": cm["cancel"],
        "copy_exception": find_def(common, "copy_exception"), "try_set_result": find_def(common, "try_set_result"),
        "gate_call": hm["__call__"],
    }
    dropped = []
    progs = {}
    for name, fn in fns.items():
        if U(fn.args) != SIGS[name]:
            raise Unsupported("%s signature: %s (expected %s)" % (name, U(fn.args), SIGS[name]))
        no_forbidden_nodes(fn, name)
        ctx = Ctx(name, dropped)
        ctx.helper = hm
        progs[name] = compile_block(body_of(fn), ctx)
    no_forbidden_nodes(hm["ensure_alive"], "ensure_alive", allow_yield=True)
    # copy_future_exception: shape-checked above (python 3 branch); its second statement is the call
    progs["copy_future_exception"] = [("A", "SOp RDExcValue"), ("A", "SCall MCopyException")]
    # one iteration of _poll_loop
    no_forbidden_nodes(pl, "poll_loop", allow_while=True)
    ctx = Ctx("poll_loop", dropped)
    ctx.helper = hm
    progs["poll_loop"] = compile_block(body_of(pl)[0].body, ctx)

    out = ["(* GENERATED by tools/poll2coq.py from more_executors/_impl/poll.py (PollExecutor, PollFuture, PollDescriptor, _poll_loop),",
           "   common.py (_Future.add_done_callback / cancel / _me_invoke_callbacks, copy_future_exception, copy_exception, try_set_result)",
           "   and helpers.py (ShutdownHelper.ensure_alive inlined into submit, ShutdownHelper.__call__) -- do not edit.",
           "   Regenerated on every check run.  poll_loop_prog is ONE iteration of `while True:` (break = return).",
           "   Checked, not translated: PollDescriptor.__init__ / .result, _Future.__init__, ShutdownHelper.__init__, the attribute",
           "   table of PollExecutor.__init__, copy_future_exception's python-3 branch (stdlib Future has no exception_info).",
           "   Dropped by the whitelist (logging / metrics / assert / statements that only rebind a local):"]
    for d in dropped:
        out.append("     " + d.replace("(*", "( *").replace("*)", "* )"))
    if not dropped:
        out.append("     (nothing)")
    out += ["*)", "From Coq Require Import List.", "Import ListNotations.", "From ME Require Import Model.PollIR.", ""]
    for coqname, key in ORDER:
        out += ["Definition %s : list stmt :=" % coqname, "  " + pp_list(progs[key], 2) + ".", ""]
    out += ["(* the method table the IR's SCall refers to *)",
            "Definition body (m : meth) : list stmt :=", "  match m with"]
    for m, c in (("MInit", "init_prog"), ("MAddDoneCallback", "add_done_callback_prog"), ("MInvokeCallbacks", "invoke_callbacks_prog"),
                 ("MMeCancel", "me_cancel_prog"), ("MRunCancelFn", "run_cancel_fn_prog"), ("MDelegateResolved", "delegate_resolved_prog"),
                 ("MCopyFutureException", "copy_future_exception_prog"), ("MCopyException", "copy_exception_prog"),
                 ("MTrySetResult", "try_set_result_prog"), ("MSetResult", "set_result_prog"), ("MSetException", "set_exception_prog"),
                 ("MSetExceptionInfo", "set_exception_info_prog"), ("MClearDelegate", "clear_delegate_prog"),
                 ("MClearExecutor", "clear_executor_prog"), ("MRegisterPoll", "register_poll_prog"), ("MDeregisterPoll", "deregister_poll_prog"),
                 ("MYieldResult", "yield_result_prog"), ("MYieldException", "yield_exception_prog"), ("MRunPollFn", "run_poll_fn_prog"),
                 ("MGateCall", "gate_call_prog"), ("MSubmit", "submit_prog"), ("MCancel", "cancel_prog"), ("MNotify", "notify_prog"),
                 ("MPollLoop", "poll_loop_prog"), ("MShutdown", "shutdown_prog")):
        out.append("  | %s => %s" % (m, c))
    out += ["  end.", ""]
    return "\n".join(out)


def emit(name, text):
    os.makedirs(OUT, exist_ok=True)
    p = os.path.join(OUT, name)
    old = open(p).read() if os.path.exists(p) else None
    if old != text:
        open(p, "w").write(text)


def generate(name=NAME):
    """entry point for tools/pyk2coq.py (raises Unsupported)"""
    try:
        text = generate_text()
    except Unsupported:
        raise
    except (SyntaxError, IndexError, AttributeError, KeyError, ValueError, TypeError, OSError) as e:
        raise Unsupported("%s: %s" % (type(e).__name__, e))
    emit(name, text)


def main():
    try:
        generate()
        print("generated coq/Gen/%s" % NAME)
    except Unsupported as e:
        msg = "TRANSLATOR-FAIL-CLOSED: %s" % e
        for ext in (".vo", ".vok", ".vos", ".glob"):
            q = os.path.join(OUT, NAME[:-2] + ext)
            if os.path.exists(q):
                os.remove(q)
        emit(NAME, "(* %s *)\nDefinition translator_failed_closed : True := 0.\n" % msg.replace("*)", "* )").replace("(*", "( *")[:400])
        print("%s: %s" % (NAME, msg))
        sys.exit(2)


if __name__ == "__main__":
    main()
