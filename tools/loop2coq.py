#!/usr/bin/env python3
"""Fail-closed translator: the four WORKER LOOPS (retry._submit_loop, poll._poll_loop, throttle._submit_loop,
timeout.TimeoutExecutor._job_loop, helpers such as _submit_loop_iter / _job_loop_iter / _submit_wait inlined at
their call) and every PRODUCER SITE that changes the state a loop reads and then wakes it
-> terms of the protocol IR of coq/Model/LoopIR.v, emitted as Gallina in coq/Gen/LoopSkel.v.

  loop  ::= list litem     litem ::= LDeref | LExitIfShutdown | LScan name | LWait timed | LClear | LDropRef name
                                   | LOther name | LIfContinue loop            (in execution order of ONE iteration)
  prod  ::= list pitem     pitem ::= PMutate chan under_lock | PCallerMutated chan | PSet | POther name
                                   | PIf prod prod | PReturn

What decides the translation of a statement:
  * structural patterns (deref + liveness test, shutdown test, `with <executor lock>:` around reads of the work
    container, `if ...: ...; continue`, `<loop event>.wait(..)` / `.clear()` / `.set()`, `del`, helper calls that
    are inlined, search loops `for ..: if ..: ...; break/return`),
  * VOCABULARY tables keyed by the normal form (ast.unparse) of the Python text: which statements are mutations of
    which channel, which calls are scans, which methods are inlined,
  * logging / metrics statements (pattern, arguments without calls) and an explicit per-site WHITELIST of
    irrelevant statements, keyed by their exact text.  A whitelisted statement may not contain any
    `.set(` / `.clear(` / `.wait(` call.
Everything else stops with TRANSLATOR-FAIL-CLOSED.  Source line numbers are emitted in comments.

Usage: python3 tools/loop2coq.py          (VERIF_REPO=<dir> to read another checkout; default /repo)
Registered in tools/pyk2coq.py's KERNELS list as Gen/LoopSkel.v.
"""
import ast, os, sys

REPO = os.environ.get("VERIF_REPO", "/repo")
SRC = os.path.join(REPO, "more_executors", "_impl")
OUT = os.path.join(os.path.dirname(os.path.dirname(os.path.abspath(__file__))), "coq", "Gen")
NAME = "LoopSkel.v"


class Unsupported(Exception):
    pass


def U(node):
    return ast.unparse(node)


def N(text):
    return ast.unparse(ast.parse(text))


def one_line(node, n=70):
    t = " ".join(U(node).split())
    return t if len(t) <= n else t[:n - 3] + "..."


def parse(rel):
    return ast.parse(open(os.path.join(SRC, rel)).read())


def find_class(tree, cls):
    for n in tree.body:
        if isinstance(n, ast.ClassDef) and n.name == cls:
            return n
    raise Unsupported("class %s not found" % cls)


def methods(cls):
    out = {}
    for m in cls.body:
        if isinstance(m, (ast.FunctionDef, ast.AsyncFunctionDef)):
            if m.name in out:
                raise Unsupported("%s.%s defined twice" % (cls.name, m.name))
            out[m.name] = m
    return out


def module_funcs(tree):
    out = {}
    for m in tree.body:
        if isinstance(m, ast.FunctionDef):
            if m.name in out:
                raise Unsupported("function %s defined twice" % m.name)
            out[m.name] = m
    return out


def is_doc(s):
    return isinstance(s, ast.Expr) and isinstance(s.value, ast.Constant) and isinstance(s.value.value, str)


def body_of(fn):
    b = list(fn.body)
    if b and is_doc(b[0]):
        b = b[1:]
    return b


def imported_from(tree, module, name):
    for n in tree.body:
        if isinstance(n, ast.ImportFrom) and n.module == module and any(a.name == name and a.asname is None for a in n.names):
            return True
    return False


def event_calls(node):
    """calls of .set / .clear / .wait anywhere inside node"""
    return [c for c in ast.walk(node) if isinstance(c, ast.Call) and isinstance(c.func, ast.Attribute)
            and c.func.attr in ("set", "clear", "wait")]


def has_call(node):
    return any(isinstance(c, ast.Call) for c in ast.walk(node))


def pure_arg(e):
    """arguments of dropped calls: constants, local names, attributes - no calls, no subscripts"""
    if isinstance(e, (ast.Constant, ast.Name)):
        return True
    if isinstance(e, ast.Attribute):
        return pure_arg(e.value)
    return False


def is_log(s):
    """<x>._log.debug / .exception(<pure args>), LOG.debug(<pure args>), log.debug(<pure args>)"""
    if not (isinstance(s, ast.Expr) and isinstance(s.value, ast.Call)):
        return False
    c = s.value
    f = c.func
    if not (isinstance(f, ast.Attribute) and f.attr in ("debug", "info", "warning", "exception")):
        return False
    base = U(f.value)
    if not (base in ("LOG", "log") or base.endswith("._log")):
        return False
    ok = lambda a: pure_arg(a) or (isinstance(a, ast.Call) and U(a.func) == "len" and len(a.args) == 1 and pure_arg(a.args[0]))
    return all(ok(a) for a in c.args) and all(pure_arg(k.value) for k in c.keywords)


def is_metric(s):
    """metrics.<NAME>[.labels(<pure kwargs>)].inc(<pure>) / .dec()"""
    if not (isinstance(s, ast.Expr) and isinstance(s.value, ast.Call)):
        return False
    c = s.value
    f = c.func
    if not (isinstance(f, ast.Attribute) and f.attr in ("inc", "dec")):
        return False
    if not (all(pure_arg(a) for a in c.args) and not c.keywords):
        return False
    base = f.value
    if isinstance(base, ast.Call) and isinstance(base.func, ast.Attribute) and base.func.attr == "labels":
        if not (all(pure_arg(a) for a in base.args) and all(pure_arg(k.value) for k in base.keywords)):
            return False
        base = base.func.value
    return isinstance(base, ast.Attribute) and isinstance(base.value, ast.Name) and base.value.id == "metrics" and base.attr.isupper()


SHUTDOWN_TEST = "executor._shutdown.is_shutdown or is_shutdown()"

# ------------------------------------------------------------------------------------------------------------
# component tables
# ------------------------------------------------------------------------------------------------------------
COMPONENTS = {
    "retry": dict(
        file="retry.py", cls="RetryExecutor", loop="_submit_loop", loop_is_method=False,
        event="_submit_event", lock="_lock", state="_jobs", init_event_local="event", thread_attr="_submit_thread",
        # calls, made inside the executor's lock section, that read the work container
        scan_methods={"_get_next_job": "_jobs"},
        scan_calls={},
        inline_funcs=("_submit_wait",),
        loop_conds=["not job", "job.stop_retry", "job.when <= now"],
        loop_whitelist=[
            "executor._pop_job(job)",                       # handling: removes the job the scan chose
            "copy_future(job.old_delegate, job.future)",    # handling: resolves the discarded job's future
            "now = monotonic()",
            "executor._submit_now(job)",                    # handling: hand-over (itself a producer site, below)
            "delta = job.when - now",
        ],
        producers=["submit_retry", "_retry", "_submit_now", "_cancel", "shutdown"],
        inline_methods=("_append_job", "_wake_thread"),
        other_locks=("job.future._me_lock",),
        mutations={"self._jobs.append(job)": "CJobs"},
        prod_conds=["job.future.done()", "job.attempt != 0", "wait", "job.future is future", "not job.delegate_future",
                    "not found_job", "found_job.delegate_future.cancel()"],
        prod_whitelist={
            "submit_retry": ["future = RetryFuture(self)", "track_future(future, type='retry', executor=self._name)",
                             "job = RetryJob(retry_policy, None, future, 0, monotonic(), fn, args, kwargs)"],
            "_retry": ["self._pop_job(job)",       # removal: creates no work
                       "new_job = RetryJob(job.policy, None, job.future, job.attempt, monotonic() + sleep_time, job.fn, job.args, job.kwargs, old_delegate=job.delegate_future)",
                       "new_job.stop_retry = job.stop_retry",   # write to a record that is not published yet
                       ],
            "_submit_now": ["self._pop_job(job)",
                            "delegate_future = self._delegate.submit(job.fn, *job.args, **job.kwargs)",
                            "job.future.delegate_future = delegate_future",
                            "new_job = RetryJob(job.policy, delegate_future, job.future, job.attempt + 1, None, job.fn, job.args, job.kwargs)",
                            "delegate_future.add_done_callback(self._delegate_callback)"],
            "_cancel": ["found_job = None", "future._clear_delegate()", "self._pop_job(job)", "found_job = job",
                        # a flag on an IN-FLIGHT job (guarded by the `if not job.delegate_future: ... return True` before
                        # it): _get_next_job skips jobs with a delegate_future, so this creates no work for the scan;
                        # the flag is copied into a queued job by _retry, which is a mutation followed by its set()
                        "found_job.stop_retry = True",
                        "self._pop_job(found_job)"],
            "shutdown": ["self._delegate.shutdown(wait, **_kwargs)", "self._submit_thread.join(MAX_TIMEOUT)"],
            "_append_job": [], "_wake_thread": [],
        },
        guarded={"found_job.stop_retry = True": "not job.delegate_future"},
    ),
    "poll": dict(
        file="poll.py", cls="PollExecutor", loop="_poll_loop", loop_is_method=False,
        event="_poll_event", lock="_lock", state="_poll_descriptors", init_event_local="poll_event", thread_attr="_poll_thread",
        scan_methods={},
        # a call whose FIRST statement is the executor's lock section reading the work container
        scan_calls={"next_sleep = executor._run_poll_fn()": "_run_poll_fn"},
        inline_funcs=(),
        loop_conds=[],
        loop_whitelist=[
            "if not (isinstance(next_sleep, int) or isinstance(next_sleep, float)):\n    next_sleep = executor._default_interval",
        ],
        producers=["_register_poll", "notify", "shutdown", "_deregister_poll"],
        inline_methods=(),
        other_locks=(),
        mutations={"self._poll_descriptors.append((future, descriptor))": "CJobs"},
        prod_conds=["wait"],
        prod_whitelist={
            "_register_poll": ["descriptor = PollDescriptor(future, delegate_future.result())", "future._clear_delegate()"],
            "notify": [],
            "shutdown": ["self._delegate.shutdown(wait, **_kwargs)", "self._poll_thread.join(MAX_TIMEOUT)"],
            # removal: creates no work
            "_deregister_poll": ["self._poll_descriptors = [(f, d) for f, d in self._poll_descriptors if f is not future]"],
        },
        guarded={},
    ),
    "throttle": dict(
        file="throttle.py", cls="ThrottleExecutor", loop="_submit_loop", loop_is_method=False,
        event="_event", lock="_lock", state="_to_submit", init_event_local="event", thread_attr="_thread",
        scan_methods={},
        scan_calls={},
        inline_funcs=(),
        helper="_submit_loop_iter", helper_is_method=False,
        loop_conds=[],
        loop_whitelist=[
            "throttle = executor._eval_throttle()",
            "to_submit = []",
            "for job in to_submit:\n    executor._do_submit(job)",       # handling: hand-over of what the scan popped
        ],
        producers=["submit", "_delegate_future_done", "shutdown", "_do_cancel"],
        inline_methods=(),
        other_locks=(),
        mutations={"self._to_submit.append(job)": "CJobs",
                   "running_count.decr()": "CJobs"},       # the hand-over section reads executor._running_count.value
        prod_conds=["wait", "job.future is future"],
        prod_whitelist={
            # _block_until_ready: a blocking submit parks on the SAME event (it never clears it); it is a second
            # waiter, not part of the worker's protocol (finding G11 is about that waiter)
            "submit": ["self._block_until_ready(self._eval_throttle())", "out = ThrottleFuture(self)",
                       "track_future(out, type='throttle', executor=self._name)", "job = ThrottleJob(out, fn, args, kwargs)"],
            "_delegate_future_done": [],
            "shutdown": ["self._delegate.shutdown(wait, **_kwargs)", "self._thread.join(MAX_TIMEOUT)"],
            "_do_cancel": ["self._to_submit.remove(job)"],      # removal: creates no work
        },
        guarded={},
        # _delegate_future_done(cls, log, running_count, event, future) is registered in _do_submit by this very text:
        callback_binding=("_do_submit",
                          "delegate_future.add_done_callback(partial(self._delegate_future_done, self._log, self._running_count, self._event))",
                          "_delegate_future_done", "cls, log, running_count, event, future"),
    ),
    "timeout": dict(
        file="timeout.py", cls="TimeoutExecutor", loop="_job_loop", loop_is_method=True,
        event="_jobs_write", lock="_jobs_lock", state="_jobs", init_event_local="event", thread_attr="_job_thread",
        scan_methods={"_partition_jobs": "_jobs"},
        scan_calls={},
        inline_funcs=(),
        helper="_job_loop_iter", helper_is_method=True,
        loop_conds=[],
        loop_whitelist=[
            "for job in overdue:\n    executor._do_cancel(job)",        # handling: cancels what the scan found overdue
            "wait_time = None",
            "if pending:\n    earliest = min([job.deadline for job in pending])\n    wait_time = max(earliest - monotonic(), 0)",
        ],
        producers=["submit_timeout", "_on_future_done", "shutdown"],
        inline_methods=(),
        other_locks=(),
        mutations={"self._jobs.append(job)": "CJobs"},
        prod_conds=["wait"],
        prod_whitelist={
            "submit_timeout": ["delegate_future = self._delegate.submit(fn, *args, **kwargs)", "future = MapFuture(delegate_future)",
                               "track_future(future, type='timeout', executor=self._name)",
                               "future.add_done_callback(self._on_future_done)",
                               "job = Job(future, delegate_future, monotonic() + timeout)"],
            "_on_future_done": [],
            "shutdown": ["self._delegate.shutdown(wait, **_kwargs)", "self._job_thread.join(MAX_TIMEOUT)"],
        },
        guarded={},
        # _on_future_done(self, future) is a done-callback of the future whose done() the scan reads:
        done_callback=("submit_timeout", "future.add_done_callback(self._on_future_done)", "_on_future_done", "self, future",
                       "_partition_jobs", "job.future.done()"),
    ),
}

ORDER = ["retry", "poll", "throttle", "timeout"]


# ------------------------------------------------------------------------------------------------------------
# facts checked before anything is translated
# ------------------------------------------------------------------------------------------------------------
def check_facts(comp, tree):
    c = COMPONENTS[comp]
    cls = find_class(tree, c["cls"])
    ms = methods(cls)
    for imp in ("get_event", "is_shutdown"):
        if not imported_from(tree, "event", imp):
            raise Unsupported("%s: %s is not .event.%s" % (comp, imp, imp))
    if not imported_from(tree, "helpers", "ShutdownHelper") or not imported_from(tree, "helpers", "executor_loop"):
        raise Unsupported("%s: ShutdownHelper / executor_loop are not imported from .helpers" % comp)
    for n in tree.body:      # no module-level rebinding of the names the facts rest on
        if isinstance(n, (ast.Assign, ast.AugAssign, ast.AnnAssign)):
            for t in ast.walk(n):
                if isinstance(t, ast.Name) and isinstance(t.ctx, ast.Store) and t.id in (
                        "get_event", "is_shutdown", "ShutdownHelper", "executor_loop", "weakref", "partial", c["cls"], c["loop"],
                        c.get("helper", "-")):
                    raise Unsupported("%s: module-level rebinding of %s" % (comp, t.id))
    init = ms.get("__init__")
    if init is None:
        raise Unsupported("%s.__init__ not found" % c["cls"])
    texts = [U(s) for s in ast.walk(init) if isinstance(s, ast.stmt)]
    ev, loc = c["event"], c["init_event_local"]
    need = [N("self.%s = get_event()" % ev), N("%s = self.%s" % (loc, ev)),
            N("self_ref = weakref.ref(self, lambda _: %s.set())" % loc), N("self._shutdown = ShutdownHelper()")]
    for t in need:
        if texts.count(t) != 1:
            raise Unsupported("%s.__init__: expected exactly one `%s`" % (c["cls"], t))
    # the event attribute and its local alias are assigned once; the thread runs the loop with the weak reference
    stores = [U(t) for s in ast.walk(init) if isinstance(s, ast.Assign) for t in s.targets]
    for k in ("self.%s" % ev, loc, "self_ref", "self._shutdown", "self.%s" % c["lock"]):
        if stores.count(k) != 1:
            raise Unsupported("%s.__init__ assigns %s %d times" % (c["cls"], k, stores.count(k)))
    target = ("self.%s" % c["loop"]) if c["loop_is_method"] else c["loop"]
    thr = [s for s in ast.walk(init) if isinstance(s, ast.Assign) and U(s.targets[0]) == "self.%s" % c["thread_attr"]]
    if len(thr) != 1 or not isinstance(thr[0].value, ast.Call) or U(thr[0].value.func) != "Thread":
        raise Unsupported("%s.__init__: thread construction" % c["cls"])
    kws = dict((k.arg, U(k.value)) for k in thr[0].value.keywords)
    if kws.get("target") != target or kws.get("args") != "(self_ref,)":
        raise Unsupported("%s.__init__: thread target/args are %s / %s" % (c["cls"], kws.get("target"), kws.get("args")))
    # nobody else assigns the event attribute
    for m in ms.values():
        if m is init:
            continue
        for s in ast.walk(m):
            if isinstance(s, (ast.Assign, ast.AugAssign)):
                for t in (s.targets if isinstance(s, ast.Assign) else [s.target]):
                    if U(t).endswith("." + ev):
                        raise Unsupported("%s.%s assigns %s" % (c["cls"], m.name, U(t)))
    return cls, ms, init


HELPER_CALL = N("""
def __call__(self):
    with self._lock:
        if self.is_shutdown:
            return False
        self.is_shutdown = True
        return True
""")
ENSURE_ALIVE = N("""
@contextmanager
def ensure_alive(self):
    with self._lock:
        if self.is_shutdown:
            raise RuntimeError('cannot schedule new futures after shutdown')
        yield
""")
ON_EXITING = N("""
def on_exiting(self):
    self.shutdown = True
    for evt_ref in self.events:
        evt = evt_ref()
        if evt:
            evt.set()
""")
IS_SHUTDOWN = N("""
def is_shutdown():
    return GLOBAL_HANDLER.shutdown
""")
GET_EVENT = N("""
def get_event(self):
    with self.lock:
        if not self.atexit_registered:
            atexit.register(self.on_exiting)
            self.atexit_registered = True
        out = Event()
        self.events.append(weakref.ref(out, self.clean_events))
        return out
""")
ATOMIC_DECR = N("""
def decr(self):
    with self.lock:
        self.value -= 1
""")


def strip_doc(fn):
    fn = ast.parse(U(fn)).body[0]
    if fn.body and is_doc(fn.body[0]):
        fn.body = fn.body[1:]
    # comments are not in the AST
    return U(fn)


def check_shared_facts():
    """ShutdownHelper.__call__ / ensure_alive and event.py have the texts the vocabulary speaks about"""
    ht = parse("helpers.py")
    hm = methods(find_class(ht, "ShutdownHelper"))
    if strip_doc(hm["__call__"]) != HELPER_CALL:
        raise Unsupported("ShutdownHelper.__call__ is not the test-and-set the vocabulary assumes")
    if strip_doc(hm["ensure_alive"]) != ENSURE_ALIVE:
        raise Unsupported("ShutdownHelper.ensure_alive is not the guard the vocabulary assumes")
    et = parse("event.py")
    em = methods(find_class(et, "ShutdownAwareEventHandler"))
    if strip_doc(em["on_exiting"]) != ON_EXITING:
        raise Unsupported("event.on_exiting: unexpected shape")
    if strip_doc(em["get_event"]) != GET_EVENT:
        raise Unsupported("event.get_event: unexpected shape")
    if strip_doc(module_funcs(et)["is_shutdown"]) != IS_SHUTDOWN:
        raise Unsupported("event.is_shutdown: unexpected shape")
    tops = [U(s) for s in et.body if isinstance(s, ast.Assign)]
    if N("GLOBAL_HANDLER = ShutdownAwareEventHandler()") not in tops or N("get_event = GLOBAL_HANDLER.get_event") not in tops:
        raise Unsupported("event.py: GLOBAL_HANDLER / get_event bindings")
    return em["on_exiting"]


# ------------------------------------------------------------------------------------------------------------
# the worker loops
# ------------------------------------------------------------------------------------------------------------
class LoopCtx(object):
    def __init__(self, comp, tree, ms, funcs):
        self.comp, self.c, self.tree, self.ms, self.funcs = comp, COMPONENTS[comp], tree, ms, funcs
        self.ref = None              # name of the weak-reference parameter
        self.execs = set()           # local names holding the executor
        self.events = set()          # local names holding the loop's event
        self.timed = {}              # local name -> may be a number (True) / is None (False)
        self.depth = 0
        self.fname = self.c["file"]

    def where(self, s):
        return "%s:%d" % (self.fname, s.lineno)


def L(kind, s, ctx, *args):
    return (kind,) + args + (ctx.where(s),)


def check_scan_method(ctx, mname, state):
    m = ctx.ms.get(mname)
    if m is None:
        raise Unsupported("%s: scan method %s not found" % (ctx.comp, mname))
    reads = [n for n in ast.walk(m) if isinstance(n, ast.Attribute) and U(n) == "self." + state and isinstance(n.ctx, ast.Load)]
    if not reads:
        raise Unsupported("%s.%s does not read self.%s" % (ctx.comp, mname, state))
    if event_calls(m):
        raise Unsupported("%s.%s touches an event" % (ctx.comp, mname))


def is_lock_scan(s, ctx):
    """with executor.<lock>: <reads of the work container, no event operation, no jump>"""
    if not (isinstance(s, ast.With) and len(s.items) == 1 and s.items[0].optional_vars is None):
        return False
    ce = s.items[0].context_expr
    if not (isinstance(ce, ast.Attribute) and isinstance(ce.value, ast.Name) and ce.value.id in ctx.execs and ce.attr == ctx.c["lock"]):
        return False
    for n in ast.walk(s):
        if isinstance(n, (ast.Continue, ast.Return, ast.With, ast.Try, ast.Yield, ast.Delete)) and n is not s:
            raise Unsupported("%s: %s inside the scan section" % (ctx.where(s), type(n).__name__))
    if event_calls(s):
        raise Unsupported("%s: event operation inside the scan section" % ctx.where(s))
    ok = False
    for n in ast.walk(s):
        if isinstance(n, ast.Attribute) and isinstance(n.value, ast.Name) and n.value.id in ctx.execs:
            if n.attr == ctx.c["state"] and isinstance(n.ctx, ast.Load):
                ok = True
            if n.attr in ctx.c["scan_methods"]:
                check_scan_method(ctx, n.attr, ctx.c["scan_methods"][n.attr])
                ok = True
    if not ok:
        raise Unsupported("%s: lock section does not read executor.%s" % (ctx.where(s), ctx.c["state"]))
    return True


def check_scan_call(ctx, mname):
    """the method's first statement is `with self.<lock>:` reading self.<state>"""
    m = ctx.ms.get(mname)
    if m is None:
        raise Unsupported("%s: %s not found" % (ctx.comp, mname))
    b = body_of(m)
    if not b or not isinstance(b[0], ast.With) or len(b[0].items) != 1 or U(b[0].items[0].context_expr) != "self." + ctx.c["lock"]:
        raise Unsupported("%s.%s does not start with the lock section" % (ctx.comp, mname))
    if not any(isinstance(n, ast.Attribute) and U(n) == "self." + ctx.c["state"] for n in ast.walk(b[0])):
        raise Unsupported("%s.%s: lock section does not read self.%s" % (ctx.comp, mname, ctx.c["state"]))
    if event_calls(m):
        raise Unsupported("%s.%s touches an event" % (ctx.comp, mname))


def falsy_kind(v):
    if v is None or (isinstance(v, ast.Constant) and v.value is None):
        return "none"
    if isinstance(v, ast.Tuple) and v.elts and isinstance(v.elts[0], ast.Constant) and v.elts[0].value is None:
        return "tuple"
    return None


def timedness(e, ctx):
    if e is None or (isinstance(e, ast.Constant) and e.value is None):
        return False
    if isinstance(e, ast.Name) and e.id in ctx.timed:
        return ctx.timed[e.id]
    return True


def exit_block(stmts, ctx, how):
    """[logging]* then the jump that leaves the loop: break (how='break') / a falsy return (how='return') -> kind"""
    if not stmts:
        return None
    for s in stmts[:-1]:
        if not is_log(s):
            return None
    last = stmts[-1]
    if how == "break":
        return "break" if isinstance(last, ast.Break) else None
    if isinstance(last, ast.Return):
        return falsy_kind(last.value)
    return None


def compile_iter(stmts, ctx, how, helper_exits=None):
    """statements of one iteration (or of an inlined helper) -> items"""
    out = []
    i = 0
    stmts = list(stmts)
    while i < len(stmts):
        s = stmts[i]
        nxt = stmts[i + 1] if i + 1 < len(stmts) else None
        text = U(s)
        # ---- executor = executor_ref(); if not executor: break
        if isinstance(s, ast.Assign) and len(s.targets) == 1 and isinstance(s.targets[0], ast.Name) and ctx.ref and \
                U(s.value) == ctx.ref + "()":
            name = s.targets[0].id
            if not (isinstance(nxt, ast.If) and U(nxt.test) == "not " + name and not nxt.orelse and exit_block(nxt.body, ctx, how)):
                raise Unsupported("%s: dereference not followed by the liveness test" % ctx.where(s))
            ctx.execs.add(name)
            out.append(L("LDeref", s, ctx))
            i += 2
            continue
        # ---- helper: if not executor: return <falsy>   (the argument is executor_ref())
        if how == "return" and isinstance(s, ast.If) and not s.orelse and isinstance(s.test, ast.UnaryOp) and isinstance(s.test.op, ast.Not) \
                and isinstance(s.test.operand, ast.Name) and s.test.operand.id in ctx.execs:
            k = exit_block(s.body, ctx, how)
            if not k:
                raise Unsupported("%s: liveness test does not leave with a falsy return" % ctx.where(s))
            helper_exits.append(k)
            if i != 0:
                raise Unsupported("%s: liveness test is not the first statement of the helper" % ctx.where(s))
            out.append(L("LDeref", s, ctx))
            i += 1
            continue
        # ---- if executor._shutdown.is_shutdown or is_shutdown(): break / return <falsy>
        if isinstance(s, ast.If) and not s.orelse and len(ctx.execs) == 1 and \
                U(s.test) == N(SHUTDOWN_TEST.replace("executor", list(ctx.execs)[0])):
            k = exit_block(s.body, ctx, how)
            if not k:
                raise Unsupported("%s: shutdown test does not leave the loop" % ctx.where(s))
            if how == "return":
                helper_exits.append(k)
            out.append(L("LExitIfShutdown", s, ctx))
            i += 1
            continue
        # ---- helper call: X = helper(executor_ref())  with the loop's exit test
        hc = helper_call(s, ctx)
        if hc:
            items, used = inline_helper(s, hc, stmts[i + 1:], ctx)
            out.extend(items)
            i += 1 + used
            continue
        # ---- the scan
        if is_lock_scan(s, ctx):
            out.append(L("LScan", s, ctx, one_line(s.body[0], 50)))
            i += 1
            continue
        if text in [N(k) for k in ctx.c["scan_calls"]]:
            mname = dict((N(k), v) for k, v in ctx.c["scan_calls"].items())[text]
            check_scan_call(ctx, mname)
            out.append(L("LScan", s, ctx, one_line(s, 50)))
            i += 1
            continue
        # ---- if <cond>: ...; continue
        if isinstance(s, ast.If) and not s.orelse and s.body and isinstance(s.body[-1], ast.Continue):
            if how != "break":
                raise Unsupported("%s: continue inside a helper" % ctx.where(s))
            if U(s.test) not in [N(k) for k in ctx.c["loop_conds"]]:
                raise Unsupported("%s: condition `%s` is not in the vocabulary" % (ctx.where(s), one_line(s.test)))
            saved = (set(ctx.execs), set(ctx.events), dict(ctx.timed))
            body = compile_iter(s.body[:-1], ctx, how)
            ctx.execs, ctx.events, ctx.timed = saved          # the branch left the iteration
            out.append(L("LIfContinue", s, ctx, one_line(s.test, 40), body))
            i += 1
            continue
        # ---- event = executor.<event>
        if isinstance(s, ast.Assign) and len(s.targets) == 1 and isinstance(s.targets[0], ast.Name) and \
                isinstance(s.value, ast.Attribute) and isinstance(s.value.value, ast.Name) and s.value.value.id in ctx.execs \
                and s.value.attr == ctx.c["event"]:
            ctx.events.add(s.targets[0].id)
            out.append(L("LOther", s, ctx, one_line(s)))
            i += 1
            continue
        # ---- del executor / del <local>
        if isinstance(s, ast.Delete) and len(s.targets) == 1 and isinstance(s.targets[0], ast.Name):
            n = s.targets[0].id
            if n in ctx.events:
                raise Unsupported("%s: del of the event" % ctx.where(s))
            ctx.execs.discard(n)
            out.append(L("LDropRef", s, ctx, n))
            i += 1
            continue
        # ---- inlined module function, e.g. _submit_wait(event[, timeout])
        if isinstance(s, ast.Expr) and isinstance(s.value, ast.Call) and isinstance(s.value.func, ast.Name) and \
                s.value.func.id in ctx.c["inline_funcs"]:
            out.extend(inline_func(s, ctx))
            i += 1
            continue
        # ---- <event>.wait(t) / <event>.clear()
        if isinstance(s, ast.Expr) and isinstance(s.value, ast.Call) and isinstance(s.value.func, ast.Attribute) and \
                s.value.func.attr in ("wait", "clear", "set"):
            call = s.value
            base = call.func.value
            if not (isinstance(base, ast.Name) and base.id in ctx.events):
                raise Unsupported("%s: `%s` on something that is not the loop's event" % (ctx.where(s), one_line(s)))
            if call.keywords:
                raise Unsupported("%s: keyword arguments" % ctx.where(s))
            if call.func.attr == "wait":
                if len(call.args) > 1:
                    raise Unsupported("%s: wait arguments" % ctx.where(s))
                if ctx.execs:
                    pass        # a strong reference held across the wait is C12's business, not the protocol's
                out.append(L("LWait", s, ctx, timedness(call.args[0] if call.args else None, ctx)))
            elif call.func.attr == "clear":
                if call.args:
                    raise Unsupported("%s: clear arguments" % ctx.where(s))
                out.append(L("LClear", s, ctx))
            else:
                raise Unsupported("%s: the worker sets its own event" % ctx.where(s))
            i += 1
            continue
        # ---- logging / whitelist
        if is_log(s):
            out.append(L("LOther", s, ctx, "log"))
            i += 1
            continue
        if is_metric(s):
            out.append(L("LOther", s, ctx, "metrics"))
            i += 1
            continue
        if text in [N(k) for k in ctx.c["loop_whitelist"]]:
            if event_calls(s):
                raise Unsupported("%s: whitelisted statement touches an event" % ctx.where(s))
            for n in ast.walk(s):
                if isinstance(n, (ast.Continue, ast.Break, ast.Return)):
                    raise Unsupported("%s: jump inside a whitelisted statement" % ctx.where(s))
            out.append(L("LOther", s, ctx, one_line(s, 50)))
            i += 1
            continue
        raise Unsupported("%s: statement `%s` is outside the vocabulary and the whitelist" % (ctx.where(s), one_line(s)))
    return out


def helper_call(s, ctx):
    h = ctx.c.get("helper")
    if not h or not ctx.ref or not isinstance(s, ast.Assign) or len(s.targets) != 1 or not isinstance(s.value, ast.Call):
        return None
    want = ("cls." + h) if ctx.c["helper_is_method"] else h
    call = s.value
    if U(call.func) != want:
        return None
    if len(call.args) != 1 or call.keywords or U(call.args[0]) != ctx.ref + "()":
        raise Unsupported("%s: helper call arguments" % ctx.where(s))
    return h


def inline_helper(s, h, following, ctx):
    """X = helper(executor_ref()) ... -> (items, number of following statements consumed)"""
    if ctx.depth > 2:
        raise Unsupported("inlining too deep")
    fn = ctx.ms[h] if ctx.c["helper_is_method"] else ctx.funcs.get(h)
    if fn is None:
        raise Unsupported("helper %s not found" % h)
    decos = [U(d) for d in fn.decorator_list]
    if decos != (["classmethod"] if ctx.c["helper_is_method"] else []):
        raise Unsupported("helper %s decorators %s" % (h, decos))
    params = U(fn.args)
    if params != ("cls, executor" if ctx.c["helper_is_method"] else "executor"):
        raise Unsupported("helper %s parameters (%s)" % (h, params))
    for n in ast.walk(fn):
        if isinstance(n, (ast.Try, ast.While, ast.Yield, ast.YieldFrom, ast.Lambda, ast.FunctionDef, ast.Global, ast.Nonlocal)) and n is not fn:
            if isinstance(n, ast.While) and ctx.comp == "throttle":
                continue      # the pop loop inside the scan section (checked there: no jumps out, no event operation)
            raise Unsupported("helper %s: construct %s" % (h, type(n).__name__))
    sub = LoopCtx(ctx.comp, ctx.tree, ctx.ms, ctx.funcs)
    sub.depth = ctx.depth + 1
    sub.execs = {"executor"}
    exits = []
    body = body_of(fn)
    if not body or not isinstance(body[-1], ast.Return):
        raise Unsupported("helper %s does not end with a return" % h)
    ret = body[-1].value
    items = [("LOther", "call %s(%s())" % (h, ctx.ref), ctx.where(s))]
    items += compile_iter(body[:-1], sub, "return", exits)
    if sub.events:
        raise Unsupported("helper %s binds the event locally" % h)
    if not (isinstance(ret, ast.Tuple) and len(ret.elts) == 2 and U(ret.elts[0]) == "executor." + ctx.c["event"]):
        raise Unsupported("helper %s: final return is not (executor.%s, <wait time>)" % (h, ctx.c["event"]))
    if event_calls(ret):
        raise Unsupported("helper %s: event operation in the return value" % h)
    tm = timedness(ret.elts[1], sub)
    if isinstance(ret.elts[1], ast.Name) and ret.elts[1].id not in sub.timed:
        tm = True
    items.append(("LDropRef", "frame of %s" % h, sub.where(body[-1])))
    # the caller's exit test and the binding of (event, wait_time)
    tgt = s.targets[0]
    used = 0
    f = list(following)
    if isinstance(tgt, ast.Name):
        # result = helper(...); if not result: break; (event, wait_time) = result
        r = tgt.id
        if len(f) < 2 or not (isinstance(f[0], ast.If) and U(f[0].test) == "not " + r and not f[0].orelse and exit_block(f[0].body, ctx, "break")):
            raise Unsupported("%s: the helper's result is not tested for the exit" % ctx.where(s))
        if set(exits) != {"none"}:
            raise Unsupported("%s: helper exits %s do not make `not %s` true" % (ctx.where(s), exits, r))
        b = f[1]
        if not (isinstance(b, ast.Assign) and len(b.targets) == 1 and isinstance(b.targets[0], ast.Tuple) and len(b.targets[0].elts) == 2
                and all(isinstance(e, ast.Name) for e in b.targets[0].elts) and U(b.value) == r):
            raise Unsupported("%s: the helper's result is not unpacked into (event, wait time)" % ctx.where(s))
        ev, wt = [e.id for e in b.targets[0].elts]
        items.append(("LOther", "if not %s: break" % r, ctx.where(f[0])))
        items.append(("LOther", one_line(b), ctx.where(b)))
        used = 2
    elif isinstance(tgt, ast.Tuple) and len(tgt.elts) == 2 and all(isinstance(e, ast.Name) for e in tgt.elts):
        ev, wt = [e.id for e in tgt.elts]
        if len(f) < 1 or not (isinstance(f[0], ast.If) and U(f[0].test) == "not " + ev and not f[0].orelse and exit_block(f[0].body, ctx, "break")):
            raise Unsupported("%s: the returned event is not tested for the exit" % ctx.where(s))
        if set(exits) != {"tuple"}:
            raise Unsupported("%s: helper exits %s do not make `not %s` true" % (ctx.where(s), exits, ev))
        items.append(("LOther", "if not %s: break" % ev, ctx.where(f[0])))
        used = 1
    else:
        raise Unsupported("%s: helper call target" % ctx.where(s))
    if len(exits) != 2:
        raise Unsupported("%s: helper %s has %d exits (expected the liveness and the shutdown test)" % (ctx.where(s), h, len(exits)))
    ctx.events.add(ev)
    ctx.timed[wt] = tm
    return items, used


def inline_func(s, ctx):
    """f(event[, timeout]) with f(event, timeout=None): event.wait(timeout); event.clear()  (or whatever it says now)"""
    if ctx.depth > 2:
        raise Unsupported("inlining too deep")
    call = s.value
    fn = ctx.funcs.get(call.func.id)
    if fn is None or fn.decorator_list:
        raise Unsupported("%s: function %s" % (ctx.where(s), call.func.id))
    a = fn.args
    if a.vararg or a.kwarg or a.kwonlyargs or a.posonlyargs or call.keywords:
        raise Unsupported("%s: signature of %s" % (ctx.where(s), fn.name))
    params = [p.arg for p in a.args]
    defaults = [None] * (len(params) - len(a.defaults)) + list(a.defaults)
    if len(call.args) > len(params):
        raise Unsupported("%s: too many arguments" % ctx.where(s))
    sub = LoopCtx(ctx.comp, ctx.tree, ctx.ms, ctx.funcs)
    sub.depth = ctx.depth + 1
    for k, p in enumerate(params):
        if k < len(call.args):
            arg = call.args[k]
            if isinstance(arg, ast.Name) and arg.id in ctx.events:
                sub.events.add(p)
            elif isinstance(arg, ast.Name) and arg.id in ctx.execs:
                raise Unsupported("%s: the executor is passed to %s" % (ctx.where(s), fn.name))
            else:
                if has_call(arg):
                    raise Unsupported("%s: call in an argument" % ctx.where(s))
                sub.timed[p] = timedness(arg, ctx)
        else:
            d = defaults[k]
            if d is None:
                raise Unsupported("%s: missing argument %s" % (ctx.where(s), p))
            if not (isinstance(d, ast.Constant) and d.value is None):
                raise Unsupported("%s: default of %s" % (ctx.where(s), p))
            sub.timed[p] = False
    for n in ast.walk(fn):
        if isinstance(n, (ast.Return, ast.Try, ast.While, ast.For, ast.If, ast.Yield, ast.Lambda)) :
            raise Unsupported("%s: construct %s" % (fn.name, type(n).__name__))
    items = [("LOther", "call " + one_line(s), ctx.where(s))]
    items += compile_iter(body_of(fn), sub, "none")
    return items


def compile_loop(comp, tree, ms, funcs):
    c = COMPONENTS[comp]
    fn = ms.get(c["loop"]) if c["loop_is_method"] else funcs.get(c["loop"])
    if fn is None:
        raise Unsupported("%s: loop %s not found" % (comp, c["loop"]))
    decos = [U(d) for d in fn.decorator_list]
    if decos != (["classmethod", "executor_loop"] if c["loop_is_method"] else ["executor_loop"]):
        raise Unsupported("%s: loop decorators %s" % (comp, decos))
    params = U(fn.args)
    if params != ("cls, executor_ref" if c["loop_is_method"] else "executor_ref"):
        raise Unsupported("%s: loop parameters (%s)" % (comp, params))
    body = body_of(fn)
    if len(body) != 1 or not isinstance(body[0], ast.While) or U(body[0].test) != "True" or body[0].orelse:
        raise Unsupported("%s: the loop function is not a single `while True:`" % comp)
    w = body[0]
    for n in ast.walk(w):
        if isinstance(n, (ast.Try, ast.While, ast.Yield, ast.YieldFrom, ast.Lambda, ast.FunctionDef, ast.Return, ast.Global, ast.Nonlocal)) and n is not w:
            raise Unsupported("%s: construct %s inside the loop" % (comp, type(n).__name__))
    ctx = LoopCtx(comp, tree, ms, funcs)
    ctx.ref = "executor_ref"
    items = compile_iter(w.body, ctx, "break")
    return items


# ------------------------------------------------------------------------------------------------------------
# the producer sites
# ------------------------------------------------------------------------------------------------------------
class ProdCtx(object):
    def __init__(self, comp, ms, site, events=(), under_lock=False, depth=0, aliases=None):
        self.comp, self.c, self.ms, self.site = comp, COMPONENTS[comp], ms, site
        self.events = set(events)        # local names bound to the loop's event (callback parameters)
        self.under_lock = under_lock
        self.depth = depth
        self.fname = self.c["file"]

    def where(self, s):
        return "%s:%d" % (self.fname, s.lineno)

    def sub(self, **kw):
        n = ProdCtx(self.comp, self.ms, self.site, self.events, self.under_lock, self.depth)
        for k, v in kw.items():
            setattr(n, k, v)
        return n


def ends_in_jump(stmts):
    """every path through the block ends in break / return"""
    if not stmts:
        return False
    last = stmts[-1]
    if isinstance(last, (ast.Break, ast.Return)):
        return True
    if isinstance(last, ast.If) and last.orelse:
        return ends_in_jump(last.body) and ends_in_jump(last.orelse)
    return False


def cond_ok(e, ctx):
    t = U(e)
    if t in [N(k) for k in ctx.c["prod_conds"]]:
        return True
    return False


def compile_prod(stmts, ctx, toplevel=False, in_search=False):
    out = []
    stmts = list(stmts)
    if toplevel and stmts and is_doc(stmts[0]):
        stmts = stmts[1:]
    wl = [N(k) for k in ctx.c["prod_whitelist"].get(ctx.site, [])]
    muts = dict((N(k), v) for k, v in ctx.c["mutations"].items())
    for idx, s in enumerate(stmts):
        text = U(s)
        w = ctx.where(s)
        if is_doc(s):
            raise Unsupported("%s: string statement" % w)
        if is_log(s):
            out.append(("POther", "log", w))
            continue
        if is_metric(s):
            out.append(("POther", "metrics", w))
            continue
        if isinstance(s, ast.With):
            if len(s.items) != 1 or s.items[0].optional_vars is not None:
                raise Unsupported("%s: with-statement shape" % w)
            ce = U(s.items[0].context_expr)
            if ce == "self." + ctx.c["lock"]:
                out.append(("POther", "acquire " + ce, w))
                out.extend(compile_prod(s.body, ctx.sub(under_lock=True), in_search=in_search))
                out.append(("POther", "release " + ce, w))
                continue
            if ce in ctx.c["other_locks"]:
                out.append(("POther", "acquire " + ce, w))
                out.extend(compile_prod(s.body, ctx, in_search=in_search))
                out.append(("POther", "release " + ce, w))
                continue
            if ce == "self._shutdown.ensure_alive()":
                out.append(("PIf", "ensure_alive(): raises if shut down", [("PReturn", w)], [], w))
                out.extend(compile_prod(s.body, ctx, in_search=in_search))
                continue
            raise Unsupported("%s: with `%s`" % (w, ce[:60]))
        if isinstance(s, ast.If):
            if U(s.test) == "self._shutdown()":
                if s.orelse:
                    raise Unsupported("%s: else-branch of the shutdown test" % w)
                # ShutdownHelper.__call__ (text checked): under its lock, test and set is_shutdown; True for the winner
                body = [("PMutate", "CShutdown", True, w)] + compile_prod(s.body, ctx, in_search=in_search)
                out.append(("PIf", "self._shutdown()", body, [], w))
                continue
            # metrics-only conditional
            if not s.orelse and all(is_metric(b) or is_log(b) for b in s.body) and cond_ok(s.test, ctx):
                out.append(("POther", one_line(s, 50), w))
                continue
            if not cond_ok(s.test, ctx):
                raise Unsupported("%s: condition `%s` is not in the vocabulary" % (w, one_line(s.test)))
            if event_calls(s.test):
                raise Unsupported("%s: event operation in a condition" % w)
            a = compile_prod(s.body, ctx, in_search=in_search)
            b = compile_prod(s.orelse, ctx, in_search=in_search)
            out.append(("PIf", one_line(s.test, 40), a, b, w))
            continue
        if isinstance(s, ast.Return):
            if s.value is not None and not pure_arg(s.value):
                raise Unsupported("%s: return value `%s`" % (w, one_line(s.value)))
            out.append(("PReturn", w))
            continue
        if isinstance(s, ast.Break):
            if not (in_search and idx == len(stmts) - 1):
                raise Unsupported("%s: break outside a search loop's tail" % w)
            out.append(("POther", "break (end of the search)", w))
            continue
        if isinstance(s, ast.For):
            # search loop: for ..: if <cond>: <block whose every path ends in break / return>   -> PIf block []
            if s.orelse or len(s.body) != 1 or not isinstance(s.body[0], ast.If) or s.body[0].orelse or has_call(s.iter) and \
                    U(s.iter) not in (N("enumerate(self.%s)" % ctx.c["state"]),):
                raise Unsupported("%s: for-loop shape" % w)
            inner = s.body[0]
            if not cond_ok(inner.test, ctx) or not ends_in_jump(inner.body):
                raise Unsupported("%s: not a search loop (`%s`)" % (w, one_line(inner.test)))
            if any(isinstance(n, (ast.For, ast.While)) for b in inner.body for n in ast.walk(b)):
                raise Unsupported("%s: nested loop" % w)
            a = compile_prod(inner.body, ctx, in_search=True)
            out.append(("PIf", "found: " + one_line(inner.test, 40), a, [], w))
            continue
        # ---- set()
        if isinstance(s, ast.Expr) and isinstance(s.value, ast.Call) and isinstance(s.value.func, ast.Attribute) and \
                s.value.func.attr in ("set", "clear", "wait"):
            base = U(s.value.func.value)
            if s.value.func.attr != "set" or s.value.args or s.value.keywords:
                raise Unsupported("%s: `%s` in a producer" % (w, one_line(s)))
            if base == "self." + ctx.c["event"] or base in ctx.events:
                out.append(("PSet", w))
                continue
            raise Unsupported("%s: set() of something that is not the loop's event" % w)
        # ---- inlined methods of the executor
        if isinstance(s, ast.Expr) and isinstance(s.value, ast.Call) and isinstance(s.value.func, ast.Attribute) and \
                U(s.value.func.value) == "self" and s.value.func.attr in ctx.c["inline_methods"]:
            if ctx.depth > 3:
                raise Unsupported("inlining too deep")
            m = ctx.ms.get(s.value.func.attr)
            if m is None or m.decorator_list:
                raise Unsupported("%s: method %s" % (w, s.value.func.attr))
            params = [p.arg for p in m.args.args]
            if m.args.vararg or m.args.kwarg or m.args.defaults or len(s.value.args) != len(params) - 1 or s.value.keywords:
                raise Unsupported("%s: call shape of %s" % (w, m.name))
            # arguments are local names; the callee's vocabulary speaks about its own parameter names
            if any(not isinstance(a, ast.Name) for a in s.value.args):
                raise Unsupported("%s: argument of %s" % (w, m.name))
            out.append(("POther", "call " + one_line(s, 50), w))
            out.extend(compile_prod(m.body, ctx.sub(site=m.name, depth=ctx.depth + 1), toplevel=True))
            continue
        # ---- mutations
        if text in muts:
            if event_calls(s):
                raise Unsupported("%s: event operation" % w)
            out.append(("PMutate", muts[text], ctx.under_lock, w))
            continue
        # ---- whitelist
        if text in wl:
            if event_calls(s):
                raise Unsupported("%s: whitelisted statement touches an event" % w)
            for n in ast.walk(s):
                if isinstance(n, (ast.Continue, ast.Break, ast.Return, ast.Yield)):
                    raise Unsupported("%s: jump inside a whitelisted statement" % w)
            g = dict((N(k), v) for k, v in ctx.c["guarded"].items()).get(text)
            if g is not None:
                ok = any(isinstance(p, ast.If) and U(p.test) == N(g) and not p.orelse and p.body and isinstance(p.body[-1], ast.Return)
                         for p in stmts[:idx])
                if not ok:
                    raise Unsupported("%s: `%s` is not guarded by `if %s: ... return`" % (w, one_line(s), g))
            out.append(("POther", one_line(s, 50), w))
            continue
        raise Unsupported("%s: statement `%s` is outside the vocabulary and the whitelist of %s.%s" % (w, one_line(s), ctx.c["cls"], ctx.site))
    return out


def compile_site(comp, ms, site):
    c = COMPONENTS[comp]
    m = ms.get(site)
    if m is None:
        raise Unsupported("%s.%s not found" % (c["cls"], site))
    for n in ast.walk(m):
        if isinstance(n, (ast.Try, ast.While, ast.Yield, ast.YieldFrom, ast.Lambda, ast.FunctionDef, ast.Global, ast.Nonlocal, ast.Delete,
                          ast.Assert, ast.Raise)) and n is not m:
            raise Unsupported("%s.%s: construct %s" % (c["cls"], site, type(n).__name__))
    pre = []
    events = ()
    decos = [U(d) for d in m.decorator_list]
    cb = c.get("callback_binding")
    dc = c.get("done_callback")
    if cb and cb[2] == site:
        # classmethod callback whose parameters are bound by a partial() at its registration
        reg = ms.get(cb[0])
        if reg is None or [U(x) for x in body_of(reg)].count(N(cb[1])) != 1:
            raise Unsupported("%s.%s: registration `%s` not found in %s" % (c["cls"], site, cb[1][:50], cb[0]))
        if decos != ["classmethod"] or U(m.args) != cb[3]:
            raise Unsupported("%s.%s: signature (%s)" % (c["cls"], site, U(m.args)))
        for other in ms.values():       # registered nowhere else with other arguments
            if other is not reg and any(isinstance(n, ast.Attribute) and n.attr == site for n in ast.walk(other)):
                raise Unsupported("%s.%s is also referenced in %s" % (c["cls"], site, other.name))
        events = ("event",)
        # AtomicInt.decr is `with self.lock: self.value -= 1`
        at = methods(find_class(parse(c["file"]), "AtomicInt"))
        if strip_doc(at["decr"]) != ATOMIC_DECR:
            raise Unsupported("AtomicInt.decr: unexpected shape")
    elif dc and dc[2] == site:
        reg = ms.get(dc[0])
        if reg is None or [U(x) for n in ast.walk(reg) if isinstance(n, ast.stmt) for x in [n]].count(N(dc[1])) != 1:
            raise Unsupported("%s.%s: registration `%s` not found in %s" % (c["cls"], site, dc[1], dc[0]))
        if decos or U(m.args) != dc[3]:
            raise Unsupported("%s.%s: signature" % (c["cls"], site))
        scan = ms.get(dc[4])
        if scan is None or not any(U(n) == N(dc[5]) for n in ast.walk(scan) if isinstance(n, ast.Call)):
            raise Unsupported("%s.%s: the scan %s does not read %s" % (c["cls"], site, dc[4], dc[5]))
        # a done-callback runs after the future's state change (contract of add_done_callback); the scan reads done()
        pre = [("PCallerMutated", "CJobs", "%s:%d" % (c["file"], m.lineno))]
    elif decos:
        raise Unsupported("%s.%s is decorated (%s)" % (c["cls"], site, decos))
    ctx = ProdCtx(comp, ms, site, events)
    return pre + compile_prod(m.body, ctx, toplevel=True)


# ------------------------------------------------------------------------------------------------------------
# printing
# ------------------------------------------------------------------------------------------------------------
def q(sx):
    return '"' + sx.replace('"', "'").replace("(*", "( *").replace("*)", "* )").replace("\n", " ") + '"'


def pp_items(items, ind):
    if not items:
        return "[]"
    pad = " " * ind
    return "[ " + (";\n" + pad + "  ").join(pp_item(x, ind + 2) for x in items) + " ]"


def pp_item(x, ind):
    k, w = x[0], x[-1]
    cm = "   (* %s *)" % w
    if k in ("LDeref", "LExitIfShutdown", "LClear", "PSet", "PReturn"):
        return k + cm
    if k in ("LScan", "LDropRef", "LOther", "POther"):
        return "%s %s%s" % (k, q(x[1]), cm)
    if k == "LWait":
        return "LWait %s%s" % ("true" if x[1] else "false", cm)
    if k == "LIfContinue":
        return "LIfContinue   (* if %s: ...; continue   %s *)\n%s%s" % (x[1].replace("*)", "* )"), w, " " * (ind + 2), pp_items(x[2], ind + 2))
    if k == "PMutate":
        return "PMutate %s %s%s" % (x[1], "true" if x[2] else "false", cm)
    if k == "PCallerMutated":
        return "PCallerMutated %s%s" % (x[1], cm)
    if k == "PIf":
        return "PIf   (* if %s   %s *)\n%s%s\n%s%s" % (x[1].replace("*)", "* )"), w, " " * (ind + 2), pp_items(x[2], ind + 2),
                                                    " " * (ind + 2), pp_items(x[3], ind + 2))
    raise Unsupported("printer: " + k)


def generate_text():
    on_exiting = check_shared_facts()
    out = ["(* GENERATED by tools/loop2coq.py from more_executors/_impl/{retry,poll,throttle,timeout,event,helpers}.py -- do not edit.",
           "   Regenerated on every check run.  One iteration of each worker loop (helpers inlined at their call) and every",
           "   producer site, as terms of Model/LoopIR.v; the comments give the source lines. *)",
           "From Coq Require Import List String.",
           "Import ListNotations.",
           "From ME Require Import Model.LoopIR.",
           "Local Open Scope string_scope.",
           ""]
    # event.py's exit hook: flag, then every live registered event is set (shape checked above); the event of a
    # running loop is alive (the loop holds it), so its iteration of the for-loop takes the `if evt:` branch
    ln = on_exiting.lineno
    out += ["(* event.py ShutdownAwareEventHandler.on_exiting: `self.shutdown = True`, then `evt.set()` for every live event *)",
            "Definition exit_hook : list pitem :=",
            "  [ PMutate CShutdown false   (* event.py:%d *);" % (ln + 1),
            "    PSet   (* event.py:%d (for every registered event that is alive) *) ]." % (ln + 6),
            ""]
    for comp in ORDER:
        c = COMPONENTS[comp]
        tree = parse(c["file"])
        cls, ms, init = check_facts(comp, tree)
        funcs = module_funcs(tree)
        loop = compile_loop(comp, tree, ms, funcs)
        out += ["(* ---- %s: %s ---- *)" % (comp, c["loop"]),
                "Definition %s_loop : list litem :=" % comp,
                "  " + pp_items(loop, 2) + ".",
                ""]
        names = []
        for site in c["producers"]:
            prog = compile_site(comp, ms, site)
            nm = "%s_%s" % (comp, site.lstrip("_"))
            names.append(nm)
            out += ["(* %s.%s *)" % (c["cls"], site),
                    "Definition %s : list pitem :=" % nm,
                    "  " + pp_items(prog, 2) + ".",
                    ""]
        # the finaliser registered in __init__: weakref.ref(self, lambda _: <event>.set())  (text checked in check_facts)
        fin = [s for s in ast.walk(init) if isinstance(s, ast.Assign) and U(s.targets[0]) == "self_ref"][0]
        nm = "%s_finalizer" % comp
        names.append(nm)
        out += ["(* %s.__init__: weakref.ref(self, lambda _: %s.set()) - runs after the referent died (weakref contract) *)" % (c["cls"], c["init_event_local"]),
                "Definition %s : list pitem :=" % nm,
                "  [ PCallerMutated CAlive   (* %s:%d *);" % (c["file"], fin.lineno),
                "    PSet   (* %s:%d *) ]." % (c["file"], fin.lineno),
                ""]
        names.append("exit_hook")
        out += ["Definition %s_producers : list (list pitem) :=" % comp,
                "  [ " + "; ".join(names) + " ].",
                "Definition %s_producer_names : list string :=" % comp,
                "  [ " + "; ".join(q(n) for n in names) + " ].",
                ""]
    return "\n".join(out)


def emit(name, text):
    os.makedirs(OUT, exist_ok=True)
    p = os.path.join(OUT, name)
    old = open(p).read() if os.path.exists(p) else None
    if old != text:
        open(p, "w").write(text)


def generate(name=NAME):
    """entry point for tools/pyk2coq.py (raises Unsupported)"""
    try:
        text = generate_text()
    except Unsupported:
        raise
    except (SyntaxError, IndexError, AttributeError, KeyError, ValueError, TypeError, OSError) as e:
        raise Unsupported("%s: %s" % (type(e).__name__, e))
    emit(name, text)


def main():
    try:
        generate()
        print("generated coq/Gen/%s" % NAME)
        sys.exit(0)
    except Unsupported as e:
        msg = "TRANSLATOR-FAIL-CLOSED: %s" % e
        for ext in (".vo", ".vok", ".vos", ".glob"):
            qq = os.path.join(OUT, NAME[:-2] + ext)
            if os.path.exists(qq):
                os.remove(qq)
        emit(NAME, "(* %s *)\nDefinition translator_failed_closed : True := 0.\n" % msg.replace("*)", "* )").replace("(*", "( *")[:400])
        print("%s: %s" % (NAME, msg))
        sys.exit(2)


if __name__ == "__main__":
    main()
