#!/usr/bin/env python3
"""Fail-closed translator: the CONCURRENT METHOD BODIES of RetryExecutor / RetryFuture

    retry.py    RetryExecutor.submit_retry, _wake_thread, _submit_now, _pop_job, _append_job, _retry, _cancel,
                _delegate_callback, shutdown; copy_future, eval_policy, _submit_loop (one iteration of `while True`),
                _submit_wait; RetryFuture.__init__, running, _clear_delegate, _clear_executor, __terminate_via,
                set_result, set_exception, _me_cancel
    common.py   _Future.cancel (the frame around _me_cancel; the API call the machine's ECallCancel stands for),
                _Future.add_done_callback (ECallAddCb)

-> the imperative IR of coq/Model/RetryIR.v, emitted as Gallina in coq/Gen/RetrySkel.v.

Kept structurally: `with <lock>:` (lock table keyed by (function, expression text)), `with self._shutdown.ensure_alive():`
(SGate: the gate is outside the Retry machine's alphabet), if / else over a vocabulary of conditions (a visible
operation inside a condition stays an operation: CA), the `for ... : if <match>:` scans with the container they read
(`self._jobs` LIVE or the copy `self._jobs[:]`), try / except, assert, return / break / continue, calls of the
methods above (SCall: one definition per method, referenced by name - nothing is inlined textually).
Leaves: the VISIBLE operations (Event set / wait / clear, stdlib Future methods, delegate.submit / shutdown,
policy calls, _me_invoke_callbacks) and the silent heap actions the machine's instructions stand for, from a
vocabulary keyed by (function, Python text of the statement).
NOT re-translated: `_get_next_job` (Gen/RetryGen.v get_next_job: the machine calls it) -> ZNextJob; the policy
kernels.  common.copy_future_exception / try_set_result are `try: f2.set_exception / set_result except
InvalidStateError` (their digests are pinned by Src_common): STry around the RetryFuture setter.

Dropped, EXPLICITLY and listed in the generated file: logging calls with pure arguments, metrics updates,
track_future(...), `if` statements with a pure test whose body is dropped entirely, pure local bindings from a
table, `del <local>`.  Anything else stops with TRANSLATOR-FAIL-CLOSED (exit 2).

Usage: python3 tools/retry2coq.py          (VERIF_REPO=<dir> to read another checkout; default /repo)
Registered in tools/pyk2coq.py's KERNELS list, so `bin/check` regenerates Gen/RetrySkel.v on every run.
"""
import ast, os, sys

sys.path.insert(0, os.path.dirname(os.path.abspath(__file__)))
from skel2coq import Unsupported, U, N, is_doc, methods, find_class, imported_from   # noqa: E402  (helpers only)

REPO = os.environ.get("VERIF_REPO", "/repo")
SRC = os.path.join(REPO, "more_executors", "_impl")
OUT = os.path.join(os.path.dirname(os.path.dirname(os.path.abspath(__file__))), "coq", "Gen")
NAME = "RetrySkel.v"


def parse(rel):
    return ast.parse(open(os.path.join(SRC, rel)).read())


def find_def(tree, name):
    for n in tree.body:
        if isinstance(n, ast.FunctionDef) and n.name == name:
            return n
    raise Unsupported("function %s not found" % name)


def body_of(fn):
    b = list(fn.body)
    if b and is_doc(b[0]):
        b = b[1:]              # the docstring (explicitly skipped)
    return b


FORBIDDEN = (ast.AsyncWith, ast.AsyncFor, ast.Await, ast.Global, ast.Nonlocal, ast.FunctionDef, ast.ClassDef, ast.Lambda,
             ast.NamedExpr, ast.Yield, ast.YieldFrom, ast.AnnAssign, ast.Raise)

# ------------------------------------------------------------------------------------------------
# tables
# ------------------------------------------------------------------------------------------------
# (function, with-expression) -> lock
LOCKS = {
    ("_submit_now", "job.future._me_lock"): "LM", ("_submit_now", "self._lock"): "LX",
    ("_pop_job", "self._lock"): "LX", ("_append_job", "self._lock"): "LX", ("_retry", "self._lock"): "LX",
    ("_cancel", "self._lock"): "LX", ("_submit_loop", "executor._lock"): "LX",
    ("running", "self._me_lock"): "LM", ("_clear_delegate", "self._me_lock"): "LM",
    ("_clear_executor", "future._me_lock"): "LM", ("__terminate_via", "self._me_lock"): "LM",
    ("cancel", "self._me_lock"): "LM", ("add_done_callback", "self._me_lock"): "LM",
}
GATES = {("submit_retry", "self._shutdown.ensure_alive()")}

# calls of translated methods: (caller, statement text) -> (bound locals, callee term)
CALLS = {
    ("submit_retry", "self._append_job(job)"): ([], "append_job_prog"),
    ("submit_retry", "self._wake_thread()"): ([], "wake_thread_prog"),
    ("shutdown", "self._wake_thread()"): ([], "wake_thread_prog"),
    ("_submit_now", "self._pop_job(job)"): ([], "pop_job_prog"),
    ("_submit_now", "self._append_job(new_job)"): ([], "append_job_prog"),
    ("_submit_now", "self._wake_thread()"): ([], "wake_thread_prog"),
    ("_retry", "self._pop_job(job)"): ([], "pop_job_prog"),
    ("_retry", "self._append_job(new_job)"): ([], "append_job_prog"),
    ("_retry", "self._wake_thread()"): ([], "wake_thread_prog"),
    ("_cancel", "future._clear_delegate()"): ([], "clear_delegate_prog"),
    ("_cancel", "self._pop_job(job)"): ([], "pop_job_prog"),
    ("_cancel", "self._pop_job(found_job)"): ([], "pop_job_prog"),
    ("_cancel", "self._wake_thread()"): ([], "wake_thread_prog"),
    ("_delegate_callback", "(should_retry, sleep_time) = eval_policy(found_job, self._log)"): (["VShould", "VSleep"], "eval_policy_prog"),
    ("_delegate_callback", "self._retry(found_job, sleep_time)"): ([], "retry_prog"),
    ("_delegate_callback", "copy_future(delegate_future, found_job.future)"): ([], "(copy_future_prog RD)"),
    ("_delegate_callback", "self._pop_job(found_job)"): ([], "pop_job_prog"),
    ("_submit_loop", "executor._pop_job(job)"): ([], "pop_job_prog"),
    ("_submit_loop", "copy_future(job.old_delegate, job.future)"): ([], "(copy_future_prog ROld)"),
    ("_submit_loop", "executor._submit_now(job)"): ([], "submit_now_prog"),
    ("_submit_loop", "_submit_wait(event)"): ([], "(submit_wait_prog false)"),
    ("_submit_loop", "_submit_wait(event, delta)"): ([], "(submit_wait_prog true)"),
    ("__terminate_via", "self._clear_delegate()"): ([], "clear_delegate_prog"),
    ("__terminate_via", "self._me_invoke_callbacks()"): None,     # a leaf: AInvokeCbs (vocabulary below)
    ("set_result", "self.__terminate_via(super(RetryFuture, self).set_result, result)"): ([], "terminate_via_prog"),
    ("set_exception", "self.__terminate_via(super(RetryFuture, self).set_exception, exception)"): ([], "terminate_via_prog"),
    # common.copy_future_exception(f1, f2) = try: f2.set_exception[_info](...) except InvalidStateError: log
    ("copy_future", "copy_future_exception(f1, f2)"): "TRYSET set_exception_prog",
    # common.try_set_result(f2, result) = try: f2.set_result(result) except InvalidStateError: log
    ("copy_future", "try_set_result(f2, result)"): "TRYSET set_result_prog",
}

# plain statements: (function, text) -> list of IR statements
def A(x, a):
    return ("SAct", x, a)


VOCAB = {
    ("_wake_thread", "self._submit_event.set()"): [A(None, "AEvSet")],
    ("_append_job", "self._jobs.append(job)"): [A(None, "ZAppend")],
    ("_pop_job", "return self._jobs.pop(idx)"): [A(None, "ZPopIdx"), ("SReturn", ["EObj"])],
    ("submit_retry", "future = RetryFuture(self)"): [A("VFuture", "ZNewFuture")],
    ("submit_retry", "job = RetryJob(retry_policy, None, future, 0, monotonic(), fn, args, kwargs)"): [A("VJob", "(ZNewJob K0)")],
    ("_submit_now", "delegate_future = self._delegate.submit(job.fn, *job.args, **job.kwargs)"): [A("VDelegate", "ADSubmit")],
    ("_submit_now", "job.future.delegate_future = delegate_future"): [A(None, "ZLink")],
    ("_submit_now", "new_job = RetryJob(job.policy, delegate_future, job.future, job.attempt + 1, None, job.fn, job.args, job.kwargs)"):
        [A("VNewJob", "(ZNewJob KFlight)")],
    ("_submit_now", "delegate_future.add_done_callback(self._delegate_callback)"): [A(None, "ADAddCb")],
    ("_retry", "new_job = RetryJob(job.policy, None, job.future, job.attempt, monotonic() + sleep_time, job.fn, job.args, job.kwargs, old_delegate=job.delegate_future)"):
        [A("VNewJob", "(ZNewJob KRetry)")],
    ("_retry", "new_job.stop_retry = job.stop_retry"): [A(None, "ZCopyStop")],
    ("_cancel", "found_job = None"): [("SAssign", "VFound", "VNone")],
    ("_cancel", "found_job = job"): [("SAssign", "VFound", "VObj")],
    ("_cancel", "found_job.stop_retry = True"): [A(None, "ZSetStop")],
    ("_delegate_callback", "found_job = None"): [("SAssign", "VFound", "VNone")],
    ("_delegate_callback", "found_job = job"): [("SAssign", "VFound", "VObj")],
    ("copy_future", "exception = f1.exception()"): [A("VException", "(ZExcOf f1)")],
    ("copy_future", "result = None"): [("SAssign", "VResult", "VNone")],
    ("copy_future", "result = f1.result()"): [A("VResult", "(ZResultOf f1)")],
    ("eval_policy", "should_retry = policy.should_retry(job.attempt, job.delegate_future)"): [A("VShould", "APolSR")],
    ("eval_policy", "sleep_time = policy.sleep_time(job.attempt, job.delegate_future)"): [A("VSleep", "APolST")],
    ("eval_policy", "sleep_time = None"): [("SAssign", "VSleep", "VNone")],
    ("_submit_loop", "executor = executor_ref()"): [A("VExecutor", "ZDeref")],
    ("_submit_loop", "job = executor._get_next_job()"): [A("VJob", "ZNextJob")],
    ("_submit_loop", "now = monotonic()"): [A(None, "ZClock")],
    ("_submit_wait", "event.wait(timeout)"): [A(None, "(AEvWait timed)")],
    ("_submit_wait", "event.clear()"): [A(None, "AEvClear")],
    ("__init__", "super(RetryFuture, self).__init__()"): [A(None, "ZSuperInit")],
    ("__init__", "self.delegate_future = None"): [A(None, "ZClearDelegate")],
    ("__init__", "self._executor = executor"): [A(None, "ZSetExecutor")],
    ("__init__", "self.add_done_callback(self._clear_executor)"): [A(None, "ZAddCbClearExecutor")],
    ("_clear_delegate", "self.delegate_future = None"): [A(None, "ZClearDelegate")],
    ("_clear_executor", "future._executor = None"): [A(None, "ZClearExecutor")],
    ("__terminate_via", "method(*args, **kwargs)"): [A(None, "AFSet")],
    ("__terminate_via", "self._me_invoke_callbacks()"): [A(None, "AInvokeCbs")],
    ("_me_cancel", "executor = self._executor"): [A("VExecutor", "ZReadExecutor")],
    ("_me_cancel", "return executor and executor._cancel(self)"):
        [("SIf", ("CL", "VExecutor"), [("SCall", ["VTmp"], "cancel_prog"), ("SReturn", ["(EVar VTmp)"])], [("SReturn", ["(EVar VExecutor)"])])],
    ("running", "return self.delegate_future.running() or self.delegate_future.done()"):
        [("SIf", ("CA", "ADRunning"), [("SReturn", ["(EBool true)"])],
          [("SIf", ("CA", "ADDone"), [("SReturn", ["(EBool true)"])], [("SReturn", ["(EBool false)"])])])],
    ("cancel", "out = super(_Future, self).cancel()"): [A("VOut", "AFCancelSuper")],
    ("cancel", "self.set_running_or_notify_cancel()"): [A(None, "AFSrnc")],
    ("cancel", "self._me_invoke_callbacks()"): [A(None, "AInvokeCbs")],
    ("add_done_callback", "self._me_done_callbacks.append(fn)"): [A(None, "ZAppendCb")],
    ("add_done_callback", "fn(self)"): [A(None, "AUserCb")],
    ("shutdown", "self._delegate.shutdown(wait, **_kwargs)"): [A(None, "ADShutdown")],
    ("shutdown", "self._submit_thread.join(MAX_TIMEOUT)"): [A(None, "AJoin")],
}

# conditions: (function, text) -> cond term (python tuple);  ("PRE", [stmts], cond) = statements in front of the test
CONDS = {
    ("_submit_now", "job.future.done()"): ("CA", "AFDone"),
    ("_cancel", "not job.delegate_future"): ("CNot", ("CT", "TJobHasDelegate")),
    ("_cancel", "not found_job"): ("CNot", ("CL", "VFound")),
    ("_cancel", "found_job.delegate_future.cancel()"): ("CA", "ADCancel"),
    ("_delegate_callback", "delegate_future.done()"): ("CA", "ADDone"),
    ("_delegate_callback", "found_job"): ("CL", "VFound"),
    ("_delegate_callback", "delegate_future.cancelled()"): ("CA", "ADCancelled"),
    ("_delegate_callback", "should_retry"): ("CL", "VShould"),
    ("copy_future", "exception is not None"): ("CL", "VException"),
    ("eval_policy", "job.stop_retry"): ("CT", "TJobStop"),
    ("eval_policy", "should_retry"): ("CL", "VShould"),
    ("_submit_loop", "not executor"): ("CNot", ("CL", "VExecutor")),
    ("_submit_loop", "executor._shutdown.is_shutdown or is_shutdown()"): ("CT", "TShutdown"),
    ("_submit_loop", "not job"): ("CNot", ("CL", "VJob")),
    ("_submit_loop", "job.stop_retry"): ("CT", "TJobStop"),
    ("_submit_loop", "job.when <= now"): ("CT", "TJobDue"),
    ("running", "self.done()"): ("CA", "AFDone"),
    ("running", "self.delegate_future"): ("CT", "TFutHasDelegate"),
    ("cancel", "self.cancelled()"): ("CA", "AFCancelled"),
    ("cancel", "self.done()"): ("CA", "AFDone"),
    ("cancel", "not self._me_cancel()"): ("PRE", [("SCall", ["VTmp"], "me_cancel_prog")], ("CNot", ("CL", "VTmp"))),
    ("cancel", "out"): ("CL", "VOut"),
    ("add_done_callback", "not self.done()"): ("CNot", ("CA", "AFDone")),
    ("shutdown", "self._shutdown()"): ("PRE", [A("VTmp", "ZGateClose")], ("CL", "VTmp")),
    ("shutdown", "wait"): ("CT", "TWaitArg"),
}

# for-loops: (function, target, iter, test of the single `if`) -> (container, key)
SCANS = {
    ("_pop_job", "(idx, pending)", "enumerate(self._jobs)", "pending is job"): ("ILive", "KJobIs"),
    ("_cancel", "(idx, job)", "enumerate(self._jobs)", "job.future is future"): ("ILive", "KFutureIs"),
    ("_delegate_callback", "job", "self._jobs[:]", "job.delegate_future == delegate_future"): ("ISnap", "KDelegateEq"),
    ("_delegate_callback", "job", "self._jobs", "job.delegate_future == delegate_future"): ("ILive", "KDelegateEq"),
}

# return values: (function, text of the value) -> list of rexpr
RETURNS = {
    ("submit_retry", "future"): ["(EVar VFuture)"],
    ("eval_policy", "(False, None)"): ["(EBool false)", "ENone"],
    ("eval_policy", "(should_retry, sleep_time)"): ["(EVar VShould)", "(EVar VSleep)"],
    ("cancel", "out"): ["(EVar VOut)"],
}

# pure local bindings (reads of attributes into locals that are never tested): dropped, listed
PURE_BINDINGS = {
    ("eval_policy", "policy = job.policy"),
    ("_submit_loop", "event = executor._submit_event"),
    ("_submit_loop", "delta = job.when - now"),
}
# `if` statements with a pure test whose body is dropped entirely
PURE_TESTS = {("_submit_now", "job.attempt != 0")}
HANDLERS = {("eval_policy", "Exception"): "true", ("add_done_callback", "Exception"): "true"}      # except <type>: catches everything (true) / InvalidStateError only (false)


def NE(text):
    return ast.unparse(ast.parse(text, mode="eval"))


# normalise the keys through ast.unparse (the tables above are written as Python text)
LOCKS = dict(((f, NE(t)), v) for (f, t), v in LOCKS.items())
GATES = set((f, NE(t)) for (f, t) in GATES)
CALLS = dict(((f, N(t)), v) for (f, t), v in CALLS.items())
VOCAB = dict(((f, N(t)), v) for (f, t), v in VOCAB.items())
CONDS = dict(((f, NE(t)), v) for (f, t), v in CONDS.items())
SCANS = dict(((f, NE(a), NE(b), NE(c)), v) for (f, a, b, c), v in SCANS.items())
RETURNS = dict(((f, NE(t)), v) for (f, t), v in RETURNS.items())
PURE_BINDINGS = set((f, N(t)) for (f, t) in PURE_BINDINGS)
PURE_TESTS = set((f, NE(t)) for (f, t) in PURE_TESTS)
HANDLERS = dict(((f, NE(t)), v) for (f, t), v in HANDLERS.items())


# ------------------------------------------------------------------------------------------------
# dropped statements
# ------------------------------------------------------------------------------------------------
def pure_arg(e):
    if isinstance(e, (ast.Constant, ast.Name)):
        return True
    if isinstance(e, ast.Attribute):
        return pure_arg(e.value)
    return False


LOGGERS = ("self._log.debug", "executor._log.debug", "logger.exception", "LOG.exception")


def is_dropped(s):
    if isinstance(s, ast.Delete):
        return all(isinstance(t, ast.Name) for t in s.targets)
    if not (isinstance(s, ast.Expr) and isinstance(s.value, ast.Call)):
        return False
    c = s.value
    f = c.func
    if U(f) in LOGGERS:
        return all(pure_arg(a) for a in c.args) and all(pure_arg(k.value) for k in c.keywords)
    if U(f) == "track_future":
        return all(pure_arg(a) for a in c.args) and all(pure_arg(k.value) for k in c.keywords)
    if isinstance(f, ast.Attribute) and f.attr in ("inc", "dec") and all(pure_arg(a) for a in c.args) and not c.keywords:
        base = f.value
        if isinstance(base, ast.Call) and isinstance(base.func, ast.Attribute) and base.func.attr == "labels":
            if not (all(pure_arg(a) for a in base.args) and all(pure_arg(k.value) for k in base.keywords)):
                return False
            base = base.func.value
        return isinstance(base, ast.Attribute) and isinstance(base.value, ast.Name) and base.value.id == "metrics" and base.attr.isupper()
    return False


def no_calls(e):
    return not any(isinstance(n, ast.Call) for n in ast.walk(e))


# ------------------------------------------------------------------------------------------------
# compiler
# ------------------------------------------------------------------------------------------------
class Ctx(object):
    def __init__(self, fn, dropped):
        self.fn, self.dropped = fn, dropped

    def drop(self, s, why=""):
        self.dropped.append("%s: %s%s" % (self.fn, " ".join(U(s).split())[:150], why))


def compile_cond(e, ctx):
    """-> (prelude statements, cond)"""
    key = (ctx.fn, U(e))
    if key not in CONDS:
        raise Unsupported("condition `%s` in %s" % (U(e)[:70], ctx.fn))
    c = CONDS[key]
    if c[0] == "PRE":
        return list(c[1]), c[2]
    return [], c


def compile_stmt(s, ctx):
    if is_doc(s):
        raise Unsupported("string expression statement inside a body")
    if isinstance(s, FORBIDDEN):
        raise Unsupported("%s: construct %s outside the subset" % (ctx.fn, type(s).__name__))
    if is_dropped(s):
        ctx.drop(s)
        return []
    text = U(s)
    key = (ctx.fn, text)
    if key in PURE_BINDINGS:
        ctx.drop(s, "   (pure local binding)")
        return []
    if isinstance(s, ast.With):
        if len(s.items) != 1 or s.items[0].optional_vars is not None:
            raise Unsupported("with-statement shape: " + text[:60])
        ce = U(s.items[0].context_expr)
        if (ctx.fn, ce) in LOCKS:
            return [("SWith", LOCKS[(ctx.fn, ce)], compile_block(s.body, ctx))]
        if (ctx.fn, ce) in GATES:
            return [("SGate", compile_block(s.body, ctx))]
        raise Unsupported("with `%s` in %s" % (ce[:60], ctx.fn))
    if isinstance(s, ast.If):
        if (ctx.fn, U(s.test)) in PURE_TESTS and no_calls(s.test) and not s.orelse and all(is_dropped(b) for b in s.body):
            ctx.drop(s, "   (pure test, body dropped entirely)")
            return []
        pre, c = compile_cond(s.test, ctx)
        return pre + [("SIf", c, compile_block(s.body, ctx), compile_block(s.orelse, ctx))]
    if isinstance(s, ast.Assert):
        pre, c = compile_cond(s.test, ctx)
        if s.msg is not None and not all(isinstance(n, (ast.Constant, ast.Name, ast.BinOp, ast.Mod, ast.Load)) for n in ast.walk(s.msg)):
            raise Unsupported("assert message with effects: " + text[:60])
        return pre + [("SAssert", c)]
    if isinstance(s, ast.For):
        if s.orelse or len(s.body) != 1 or not isinstance(s.body[0], ast.If) or s.body[0].orelse:
            raise Unsupported("for-loop shape in %s: %s" % (ctx.fn, text.split("\n")[0][:60]))
        k = (ctx.fn, U(s.target), U(s.iter), U(s.body[0].test))
        if k not in SCANS:
            raise Unsupported("for-loop `%s` in %s" % (text.split("\n")[0][:70], ctx.fn))
        body = compile_block(s.body[0].body, ctx)
        if not ends_scan(body):
            raise Unsupported("for-loop in %s: the matching branch does not end in break / return on every path" % ctx.fn)
        return [("SForFind", SCANS[k][0], SCANS[k][1], body)]
    if isinstance(s, ast.While):
        raise Unsupported("while-loop in %s" % ctx.fn)
    if isinstance(s, ast.Try):
        if s.orelse or s.finalbody or len(s.handlers) != 1 or s.handlers[0].name is not None or s.handlers[0].type is None:
            raise Unsupported("try shape in %s" % ctx.fn)
        hk = (ctx.fn, U(s.handlers[0].type))
        if hk not in HANDLERS:
            raise Unsupported("except `%s` in %s" % (hk[1], ctx.fn))
        return [("STry", compile_block(s.body, ctx), HANDLERS[hk], compile_block(s.handlers[0].body, ctx))]
    if isinstance(s, ast.Return):
        if s.value is None or (isinstance(s.value, ast.Constant) and s.value.value is None):
            return [("SReturn", [])]
        if isinstance(s.value, ast.Constant) and s.value.value is True:
            return [("SReturn", ["(EBool true)"])]
        if isinstance(s.value, ast.Constant) and s.value.value is False:
            return [("SReturn", ["(EBool false)"])]
        if key in VOCAB:
            return list(VOCAB[key])
        if (ctx.fn, U(s.value)) in RETURNS:
            return [("SReturn", RETURNS[(ctx.fn, U(s.value))])]
        raise Unsupported("return value `%s` in %s" % (U(s.value)[:60], ctx.fn))
    if isinstance(s, ast.Break):
        return [("SBreak",)]
    if isinstance(s, ast.Continue):
        return [("SContinue",)]
    if key in CALLS and CALLS[key] is not None:
        c = CALLS[key]
        if isinstance(c, str):
            return [("STry", [("SCall", [], c.split()[1])], "false", [])]
        return [("SCall", c[0], c[1])]
    if key in VOCAB:
        return list(VOCAB[key])
    raise Unsupported("statement `%s` in %s" % (text.split("\n")[0][:90], ctx.fn))


def compile_block(stmts, ctx):
    out = []
    for s in stmts:
        out.extend(compile_stmt(s, ctx))
    return out


def ends_scan(body):
    if not body:
        return False
    last = body[-1]
    if last[0] in ("SBreak", "SReturn"):
        return True
    if last[0] == "SIf":
        return ends_scan(last[2]) and ends_scan(last[3])
    return False


# ------------------------------------------------------------------------------------------------
# facts checked around the bodies
# ------------------------------------------------------------------------------------------------
def check_sig(fn, want):
    if U(fn.args) != want:
        raise Unsupported("%s signature: (%s), expected (%s)" % (fn.name, U(fn.args), want))


def check_facts(rt, ct):
    for mod, name in (("common", "_Future"), ("common", "copy_future_exception"), ("common", "try_set_result"),
                      ("helpers", "executor_loop"), ("helpers", "ShutdownHelper"), ("event", "get_event"),
                      ("event", "is_shutdown"), ("metrics", "metrics"), ("metrics", "track_future")):
        if not imported_from(rt, mod, name):
            raise Unsupported("retry.py: %s is not .%s.%s" % (name, mod, name))
    if not imported_from(rt, "threading", "RLock") or not imported_from(ct, "threading", "RLock"):
        raise Unsupported("RLock is not threading.RLock")
    for tree, names in ((rt, ("RLock", "RetryFuture", "RetryJob", "RetryExecutor", "copy_future", "eval_policy", "_submit_wait",
                              "_submit_loop", "monotonic", "metrics", "copy_future_exception", "try_set_result")),
                        (ct, ("RLock", "_Future", "Future"))):
        for n in tree.body:
            if isinstance(n, (ast.Assign, ast.AugAssign, ast.AnnAssign)):
                for t in ast.walk(n):
                    if isinstance(t, ast.Name) and isinstance(t.ctx, ast.Store) and t.id in names:
                        raise Unsupported("module-level rebinding of %s" % t.id)
    ex, fu, cf = find_class(rt, "RetryExecutor"), find_class(rt, "RetryFuture"), find_class(ct, "_Future")
    if [U(b) for b in fu.bases] != ["_Future"] or [U(b) for b in cf.bases] != ["Future"]:
        raise Unsupported("base classes of RetryFuture / _Future")
    em, fm, cm = methods(ex), methods(fu), methods(cf)
    want_fu = ["__init__", "__terminate_via", "_clear_delegate", "_clear_executor", "_me_cancel", "running", "set_exception",
               "set_exception_info", "set_result"]
    if sorted(fm) != want_fu:
        raise Unsupported("RetryFuture has methods %s" % sorted(fm))
    want_ex = ["__init__", "_append_job", "_cancel", "_delegate_callback", "_get_next_job", "_pop_job", "_retry", "_submit_now",
               "_wake_thread", "shutdown", "submit", "submit_retry"]
    if sorted(em) != want_ex:
        raise Unsupported("RetryExecutor has methods %s" % sorted(em))
    # the executor's fields the lock / container vocabulary rests on
    init = {}
    for s in ast.walk(em["__init__"]):
        if isinstance(s, ast.Assign) and len(s.targets) == 1:
            init.setdefault(U(s.targets[0]), []).append(U(s.value))
    for k, v in (("self._jobs", "[]"), ("self._lock", "RLock()"), ("self._submit_event", "get_event()"),
                 ("self._shutdown", "ShutdownHelper()"), ("self._delegate", "delegate")):
        if init.get(k) != [v]:
            raise Unsupported("RetryExecutor.__init__: %s = %s (expected %s)" % (k, init.get(k), v))
    cinit = {}
    for s in ast.walk(cm["__init__"]):
        if isinstance(s, ast.Assign) and len(s.targets) == 1:
            cinit.setdefault(U(s.targets[0]), []).append(U(s.value))
    if cinit.get("self._me_lock") != ["RLock()"] or cinit.get("self._me_done_callbacks") != ["[]"]:
        raise Unsupported("_Future.__init__: _me_lock / _me_done_callbacks")
    if U(em["submit"]).split("\n")[-1].strip() != "return self.submit_retry(self._default_retry_policy, *args, **kwargs)":
        raise Unsupported("submit is not a plain call of submit_retry")
    if [U(d) for d in fm["_clear_executor"].decorator_list] != ["classmethod"]:
        raise Unsupported("_clear_executor is not a classmethod")
    for name, m in list(em.items()) + list(fm.items()) + [("cancel", cm["cancel"]), ("add_done_callback", cm["add_done_callback"])]:
        if name != "_clear_executor" and m.decorator_list:
            raise Unsupported("%s is decorated" % name)
    loop = find_def(rt, "_submit_loop")
    if [U(d) for d in loop.decorator_list] != ["executor_loop"]:
        raise Unsupported("_submit_loop decorators")
    sigs = [(em["submit_retry"], "self, retry_policy, fn, *args, **kwargs"), (em["_wake_thread"], "self"), (em["_submit_now"], "self, job"),
            (em["_pop_job"], "self, job"), (em["_append_job"], "self, job"), (em["_retry"], "self, job, sleep_time"),
            (em["_cancel"], "self, future"), (em["_delegate_callback"], "self, delegate_future"), (em["shutdown"], "self, wait=True, **_kwargs"),
            (fm["__init__"], "self, executor"), (fm["running"], "self"), (fm["_clear_delegate"], "self"), (fm["_clear_executor"], "cls, future"),
            (fm["__terminate_via"], "self, method, *args, **kwargs"), (fm["set_result"], "self, result"), (fm["set_exception"], "self, exception"),
            (fm["_me_cancel"], "self"), (cm["cancel"], "self"), (cm["add_done_callback"], "self, fn"), (find_def(rt, "copy_future"), "f1, f2"), (find_def(rt, "eval_policy"), "job, logger"),
            (loop, "executor_ref"), (find_def(rt, "_submit_wait"), "event, timeout=None")]
    for fn, want in sigs:
        check_sig(fn, want)
    return em, fm, cm


# ------------------------------------------------------------------------------------------------
# printing
# ------------------------------------------------------------------------------------------------
def pp_cond(c):
    if c[0] == "CNot":
        return "(CNot %s)" % pp_cond(c[1])
    return "(%s %s)" % (c[0], c[1])


def pp_opt(x):
    return "None" if x is None else "(Some %s)" % x


def pp_list(items, ind):
    if not items:
        return "[]"
    pad = " " * ind
    return "[ " + (";\n" + pad + "  ").join(pp_stmt(s, ind + 2) for s in items) + " ]"


def pp_stmt(s, ind):
    k = s[0]
    pad = " " * (ind + 2)
    if k == "SWith":
        return "SWith %s\n%s%s" % (s[1], pad, pp_list(s[2], ind + 2))
    if k == "SGate":
        return "SGate\n%s%s" % (pad, pp_list(s[1], ind + 2))
    if k == "SIf":
        return "SIf %s\n%s%s\n%s%s" % (pp_cond(s[1]), pad, pp_list(s[2], ind + 2), pad, pp_list(s[3], ind + 2))
    if k == "SAct":
        return "SAct %s %s" % (pp_opt(s[1]), s[2])
    if k == "SAssign":
        return "SAssign %s %s" % (s[1], s[2])
    if k == "SForFind":
        return "SForFind %s %s\n%s%s" % (s[1], s[2], pad, pp_list(s[3], ind + 2))
    if k == "SCall":
        return "SCall [%s] %s" % ("; ".join(s[1]), s[2])
    if k == "STry":
        return "STry\n%s%s\n%s%s\n%s%s" % (pad, pp_list(s[1], ind + 2), pad, s[2], pad, pp_list(s[3], ind + 2))
    if k == "SAssert":
        return "SAssert %s" % pp_cond(s[1])
    if k == "SReturn":
        return "SReturn [%s]" % "; ".join(s[1])
    return k


# (definition name, parameters, source function key)
ORDER = [
    ("wake_thread_prog", "", "_wake_thread"), ("append_job_prog", "", "_append_job"), ("pop_job_prog", "", "_pop_job"),
    ("clear_delegate_prog", "", "_clear_delegate"), ("clear_executor_prog", "", "_clear_executor"),
    ("terminate_via_prog", "", "__terminate_via"), ("set_result_prog", "", "set_result"), ("set_exception_prog", "", "set_exception"),
    ("copy_future_prog", " (f1 : role)", "copy_future"), ("eval_policy_prog", "", "eval_policy"), ("retry_prog", "", "_retry"),
    ("submit_now_prog", "", "_submit_now"), ("submit_wait_prog", " (timed : bool)", "_submit_wait"), ("cancel_prog", "", "_cancel"),
    ("me_cancel_prog", "", "_me_cancel"), ("future_cancel_prog", "", "cancel"), ("future_add_done_callback_prog", "", "add_done_callback"), ("delegate_callback_prog", "", "_delegate_callback"),
    ("submit_retry_prog", "", "submit_retry"), ("submit_loop_iter_prog", "", "_submit_loop"), ("shutdown_prog", "", "shutdown"),
    ("running_prog", "", "running"), ("retry_future_init_prog", "", "__init__"),
]


def generate_text():
    rt, ct = parse("retry.py"), parse("common.py")
    em, fm, cm = check_facts(rt, ct)
    fns = dict(em)
    fns.update(fm)
    fns["cancel"] = cm["cancel"]
    fns["add_done_callback"] = cm["add_done_callback"]
    for n in ("copy_future", "eval_policy", "_submit_wait"):
        fns[n] = find_def(rt, n)
    dropped = []
    progs = {}
    for name, _, key in ORDER:
        if key == "_submit_loop":
            loop = find_def(rt, "_submit_loop")
            b = body_of(loop)
            if len(b) != 1 or not isinstance(b[0], ast.While) or U(b[0].test) != "True" or b[0].orelse:
                raise Unsupported("_submit_loop is not a single `while True:` loop")
            body = b[0].body
        else:
            body = body_of(fns[key])
        progs[name] = compile_block(body, Ctx(key, dropped))
    out = ["(* GENERATED by tools/retry2coq.py from more_executors/_impl/retry.py (RetryExecutor, RetryFuture, copy_future,",
           "   eval_policy, _submit_loop: one iteration of its `while True`, _submit_wait) and common.py (_Future.cancel, _Future.add_done_callback) -- do not edit.",
           "   Regenerated on every check run.  ZNextJob stands for executor._get_next_job() (Gen/RetryGen.v get_next_job);",
           "   STry _ false [] around set_result_prog / set_exception_prog stands for common.try_set_result / copy_future_exception",
           "   (try: <setter> except InvalidStateError: log).  Dropped by the whitelist (logging, metrics, pure bindings, del):"]
    for d in dropped:
        out.append("     " + d.replace("(*", "( *").replace("*)", "* )"))
    out += ["*)",
            "From Coq Require Import List Bool.",
            "Import ListNotations.",
            "From ME Require Import Model.RetryIR.",
            ""]
    for name, params, _ in ORDER:
        out += ["Definition %s%s : list stmt :=" % (name, params), "  " + pp_list(progs[name], 2) + ".", ""]
    return "\n".join(out)


def emit(name, text):
    os.makedirs(OUT, exist_ok=True)
    p = os.path.join(OUT, name)
    old = open(p).read() if os.path.exists(p) else None
    if old != text:
        open(p, "w").write(text)


def generate():
    """entry point for tools/pyk2coq.py (raises Unsupported)"""
    try:
        text = generate_text()
    except Unsupported:
        raise
    except (SyntaxError, IndexError, AttributeError, KeyError, ValueError, TypeError, OSError) as e:
        raise Unsupported("%s: %s" % (type(e).__name__, e))
    emit(NAME, text)


def main():
    try:
        generate()
        print("generated coq/Gen/%s" % NAME)
    except Unsupported as e:
        msg = "TRANSLATOR-FAIL-CLOSED: %s" % e
        for ext in (".vo", ".vok", ".vos", ".glob"):
            q = os.path.join(OUT, NAME[:-2] + ext)
            if os.path.exists(q):
                os.remove(q)
        emit(NAME, "(* %s *)\nDefinition translator_failed_closed : True := 0.\n" % msg.replace("*)", "* )").replace("(*", "( *")[:400])
        print("%s: %s" % (NAME, msg))
        sys.exit(2)


if __name__ == "__main__":
    main()
