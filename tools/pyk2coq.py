#!/usr/bin/env python3
"""Fail-closed translator: pure decision kernels of /repo (python ast) -> Gallina in coq/Gen/*.v.

The translator understands a small statement/expression subset (if/elif/else, for-loops over a list
with accumulator variables, continue, early return, assignments to declared locals, list append,
boolean/arithmetic/comparison expressions over a per-kernel vocabulary).  Anything else stops the
run with TRANSLATOR-FAIL-CLOSED and exit status 2.  Files are rewritten only when their content
changes (so that make stays incremental).

The specification lemmas about the generated definitions live in hand-written files
(coq/Proofs/*_Spec.v); an edit to the Python kernel changes the generated text and the lemma is
re-checked against what the code says now.
"""
import ast, sys, os, textwrap

REPO = os.environ.get("VERIF_REPO", "/repo")
SRC = os.path.join(REPO, "more_executors", "_impl")
OUT = os.path.join(os.path.dirname(os.path.dirname(os.path.abspath(__file__))), "coq", "Gen")


class Unsupported(Exception):
    pass


def parse(rel):
    return ast.parse(open(os.path.join(SRC, rel)).read())


def find(tree, cls, fn):
    for n in tree.body:
        if cls is None and isinstance(n, ast.FunctionDef) and n.name == fn:
            return n
        if isinstance(n, ast.ClassDef) and n.name == cls:
            for m in n.body:
                if isinstance(m, ast.FunctionDef) and m.name == fn:
                    return m
    raise Unsupported("%s.%s not found" % (cls, fn))


def N(text):
    """normal form of an expected source snippet under this interpreter's ast.unparse"""
    try:
        return ast.unparse(ast.parse(text))
    except SyntaxError:
        # bare `return`/`continue`/`break` snippets are not valid modules: wrap them
        body = ast.parse("def _f():\n    for _x in _y:\n" + textwrap.indent(text, "        ")).body[0].body[0].body
        return "\n".join(ast.unparse(b) for b in body)


def strip_doc(body):
    if body and isinstance(body[0], ast.Expr) and isinstance(body[0].value, ast.Constant) and isinstance(body[0].value.value, str):
        return body[1:]
    return body


# ------------------------------------------------------------------------------------------------
# expressions.  voc: python source text -> (coq term, type) ; types: bool Z Q opt list val
# ------------------------------------------------------------------------------------------------
CMP_Z = {ast.Lt: "Z.ltb", ast.LtE: "Z.leb", ast.Gt: "Z.gtb", ast.GtE: "Z.geb", ast.Eq: "Z.eqb"}
CMP_Q = {ast.Lt: "Qltb", ast.LtE: "Qle_bool", ast.Gt: "Qgtb", ast.GtE: "Qgeb", ast.Eq: "Qeq_bool"}


class Ex(object):
    def __init__(self, voc, locals_=None):
        self.voc = dict(voc)
        self.locals = dict(locals_ or {})     # python local name -> (coq name, type)

    def lookup(self, e):
        key = ast.unparse(e)
        if key in self.voc:
            return self.voc[key]
        if isinstance(e, ast.Name) and e.id in self.locals:
            return self.locals[e.id]
        return None

    def expr(self, e):
        """returns (term, type)"""
        hit = self.lookup(e)
        if hit is not None:
            return hit
        if isinstance(e, ast.Constant):
            if e.value is True:
                return ("true", "bool")
            if e.value is False:
                return ("false", "bool")
            if e.value is None:
                return ("None", "opt")
            if isinstance(e.value, int):
                return ("(%d)%%Z" % e.value, "Z")
            if isinstance(e.value, float) and float(e.value).is_integer():
                return ("(%d)%%Z" % int(e.value), "Z")
            raise Unsupported("constant " + repr(e.value))
        if isinstance(e, ast.BoolOp):
            op = " || " if isinstance(e.op, ast.Or) else " && "
            return ("(" + op.join(self.truth(v) for v in e.values) + ")", "bool")
        if isinstance(e, ast.UnaryOp) and isinstance(e.op, ast.Not):
            return ("(negb %s)" % self.truth(e.operand), "bool")
        if isinstance(e, ast.Compare) and len(e.ops) == 1:
            a, ta = self.expr(e.left)
            b, tb = self.expr(e.comparators[0])
            op = type(e.ops[0])
            if op in (ast.Is, ast.IsNot) and (ta == "opt" or tb == "opt") and "None" in (a, b):
                other = b if a == "None" else a
                t = "(isnone %s)" % other
                return (t if op is ast.Is else "(negb %s)" % t, "bool")
            if ta == tb == "Z" and op in CMP_Z:
                return ("(%s %s %s)" % (CMP_Z[op], a, b), "bool")
            if "Q" in (ta, tb) and op in CMP_Q:
                return ("(%s %s %s)" % (CMP_Q[op], self.toQ(a, ta), self.toQ(b, tb)), "bool")
            if ta == tb == "id" and op in (ast.Is, ast.Eq):
                return ("(Nat.eqb %s %s)" % (a, b), "bool")
            raise Unsupported("compare " + ast.unparse(e))
        if isinstance(e, ast.BinOp):
            a, ta = self.expr(e.left)
            b, tb = self.expr(e.right)
            if isinstance(e.op, ast.Pow):
                if tb != "Z":
                    raise Unsupported("non-integral exponent " + ast.unparse(e))
                return ("(Qpower %s %s)" % (self.toQ(a, ta), b), "Q")
            sym = {ast.Add: "+", ast.Sub: "-", ast.Mult: "*"}.get(type(e.op))
            if sym is None:
                raise Unsupported("binop " + ast.unparse(e))
            if ta == tb == "Z":
                return ("(%s %s %s)%%Z" % (a, sym, b), "Z")
            return ("(%s %s %s)%%Q" % (self.toQ(a, ta), sym, self.toQ(b, tb)), "Q")
        if isinstance(e, ast.Call) and isinstance(e.func, ast.Name) and e.func.id in ("min", "max") \
                and len(e.args) == 2 and not e.keywords:
            a, ta = self.expr(e.args[0])
            b, tb = self.expr(e.args[1])
            if ta == tb == "Z":
                return ("(Z.%s %s %s)" % (e.func.id, a, b), "Z")
            return ("(Q%s %s %s)" % (e.func.id, self.toQ(a, ta), self.toQ(b, tb)), "Q")
        raise Unsupported("expression " + ast.unparse(e))

    def toQ(self, t, ty):
        if ty == "Q":
            return t
        if ty == "Z":
            return "(inject_Z %s)" % t
        raise Unsupported("not numeric: " + t)

    def truth(self, e):
        t, ty = self.expr(e)
        if ty == "bool":
            return t
        if ty == "opt":
            return "(issome %s)" % t
        if ty == "list":
            return "(negb (isnil %s))" % t
        if ty == "Z":
            return "(negb (Z.eqb %s 0))" % t
        raise Unsupported("truthiness of %s : %s" % (t, ty))


# ------------------------------------------------------------------------------------------------
# statements: blocks compile to a Gallina expression of type (ret + acc); acc is a tuple of locals
# ------------------------------------------------------------------------------------------------
class Block(object):
    def __init__(self, ex, accs, ret_conv=None):
        self.ex = ex
        self.accs = accs            # ordered list of python local names carried across iterations
        self.ret_conv = ret_conv or (lambda ex, e: ex.expr(e)[0])

    def acc_tuple(self):
        names = [self.ex.locals[a][0] for a in self.accs]
        return names[0] if len(names) == 1 else "(" + ", ".join(names) + ")"

    def compile(self, stmts, fall):
        """fall: text of what a normal fall-through evaluates to (usually inr acc)"""
        if not stmts:
            return fall()
        s, rest = stmts[0], stmts[1:]
        if isinstance(s, ast.Continue):
            return "inr %s" % self.acc_tuple()
        if isinstance(s, ast.Return):
            return "inl %s" % self.ret_conv(self.ex, s.value)
        if isinstance(s, ast.If):
            c = self.ex.truth(s.test)
            a = self.compile(s.body + rest, fall)
            b = self.compile(s.orelse + rest, fall)
            return "(if %s then %s else %s)" % (c, a, b)
        if isinstance(s, ast.Assign) and len(s.targets) == 1 and isinstance(s.targets[0], ast.Name) \
                and s.targets[0].id in self.ex.locals:
            name, ty = self.ex.locals[s.targets[0].id]
            v, tv = self.ex.expr(s.value)
            if ty == "opt" and tv not in ("opt",):
                v = "(Some %s)" % v
            return "(let %s := %s in %s)" % (name, v, self.compile(rest, fall))
        if isinstance(s, ast.Expr) and isinstance(s.value, ast.Call) and isinstance(s.value.func, ast.Attribute) \
                and s.value.func.attr == "append" and isinstance(s.value.func.value, ast.Name) \
                and s.value.func.value.id in self.ex.locals and len(s.value.args) == 1:
            name, ty = self.ex.locals[s.value.func.value.id]
            v, _ = self.ex.expr(s.value.args[0])
            return "(let %s := (%s ++ [%s]) in %s)" % (name, name, v, self.compile(rest, fall))
        if isinstance(s, ast.Expr) and isinstance(s.value, ast.Call) and "log" in ast.unparse(s.value.func).lower():
            return self.compile(rest, fall)           # logging calls have no effect on the kernel
        raise Unsupported("statement " + ast.unparse(s)[:80])


def emit(name, text):
    os.makedirs(OUT, exist_ok=True)
    p = os.path.join(OUT, name)
    old = open(p).read() if os.path.exists(p) else None
    if old != text:
        open(p, "w").write(text)


HEADER = """(* GENERATED by tools/pyk2coq.py from %s -- do not edit.  Regenerated on every check run. *)
From Coq Require Import List ZArith QArith Qminmax Bool.
Import ListNotations.
From ME Require Import Base.GenPrelude.
"""


# ------------------------------------------------------------------------------------------------
# kernels
# ------------------------------------------------------------------------------------------------
def gen_retry():
    tree = parse("retry.py")
    out = [HEADER % "more_executors/_impl/retry.py"]
    # --- ExceptionRetryPolicy.__init__ defaults
    init = find(tree, "ExceptionRetryPolicy", "__init__")
    defaults = {}
    for s in strip_doc(init.body):
        if isinstance(s, ast.Assign) and isinstance(s.value, ast.Call) and ast.unparse(s.value.func) == "kwargs.get":
            key = s.value.args[0].value
            dv = s.value.args[1]
            if isinstance(dv, ast.Constant) and isinstance(dv.value, (int, float)) and float(dv.value).is_integer():
                defaults[key] = int(dv.value)
    for k in ("max_attempts", "exponent", "sleep", "max_sleep"):
        if k not in defaults:
            raise Unsupported("default for " + k)
        out.append("Definition default_%s : Z := %d." % (k, defaults[k]))
    # --- should_retry
    f = find(tree, "ExceptionRetryPolicy", "should_retry")
    body = strip_doc(f.body)
    if not (isinstance(body[0], ast.Assign) and ast.unparse(body[0]) == N("exception = future.exception()")):
        raise Unsupported("should_retry: first statement")
    ex = Ex({"exception": ("exc", "opt"), "attempt": ("attempt", "Z"), "self._max_attempts": ("max_attempts", "Z")})
    # trailing `for klass in self._exception_base: if isinstance(exception, klass): return True` + return False
    if len(body) < 3 or not isinstance(body[-2], ast.For) or ast.unparse(body[-1]) != N("return False"):
        raise Unsupported("should_retry: tail shape")
    loop = body[-2]
    if ast.unparse(loop.iter) != "self._exception_base" or len(loop.body) != 1 or \
            ast.unparse(loop.body[0]) != N("if isinstance(exception, klass):\n    return True"):
        raise Unsupported("should_retry: loop shape")
    tail = "existsb (isinst (the exc)) bases"
    blk = Block(ex, [], ret_conv=lambda ex_, e: ex_.truth(e))
    guards = body[1:-2]
    txt = blk.compile(guards, lambda: "inr tt")
    out.append(textwrap.dedent("""\
    Definition should_retry (isinst : nat -> nat -> bool) (max_attempts : Z) (bases : list nat)
                            (attempt : Z) (exc : option nat) : bool :=
      match %s with inl b => b | inr _ => %s end.""") % (txt, tail))
    # --- sleep_time
    f = find(tree, "ExceptionRetryPolicy", "sleep_time")
    body = strip_doc(f.body)
    if len(body) != 1 or not isinstance(body[0], ast.Return):
        raise Unsupported("sleep_time shape")
    ex = Ex({"self._sleep": ("sleep", "Q"), "self._exponent": ("exponent", "Q"), "self._max_sleep": ("max_sleep", "Q"),
             "attempt": ("attempt", "Z")})
    t, ty = ex.expr(body[0].value)
    out.append("Definition sleep_time (sleep exponent max_sleep : Q) (attempt : Z) : Q :=\n  %s." % ex.toQ(t, ty))
    # --- RetryExecutor._get_next_job
    f = find(tree, "RetryExecutor", "_get_next_job")
    body = strip_doc(f.body)
    if ast.unparse(body[0]) != N("min_job = None") or ast.unparse(body[1]) != N("now = monotonic()") or \
            not isinstance(body[2], ast.For) or ast.unparse(body[2].iter) != "self._jobs" or \
            ast.unparse(body[2].target) != "job" or ast.unparse(body[3]) != N("return min_job") or len(body) != 4:
        raise Unsupported("_get_next_job shape")
    ex = Ex({"job.delegate_future": ("(rj_has_delegate job)", "bool"), "job.stop_retry": ("(rj_stop job)", "bool"),
             "job.when": ("(rj_when job)", "Z"), "min_job.when": ("(rj_when (the_job min_job))", "Z"),
             "now": ("now", "Z"), "job": ("job", "val")},
            {"min_job": ("min_job", "opt")})
    blk = Block(ex, ["min_job"], ret_conv=lambda ex_, e: "(Some %s)" % ex_.expr(e)[0] if ast.unparse(e) == "job" else ex_.expr(e)[0])
    txt = blk.compile(body[2].body, lambda: "inr min_job")
    out.append(textwrap.dedent("""\
    Definition next_job_body (now : Z) (min_job : option rjob) (job : rjob) : option rjob + option rjob :=
      %s.
    Fixpoint next_job_loop (now : Z) (min_job : option rjob) (jobs : list rjob) : option rjob :=
      match jobs with
      | [] => min_job
      | job :: r => match next_job_body now min_job job with inl v => v | inr m => next_job_loop now m r end
      end.
    Definition get_next_job (now : Z) (jobs : list rjob) : option rjob := next_job_loop now None jobs.""") % txt)
    # --- eval_policy: stop_retry short-circuits the policy
    f = find(tree, None, "eval_policy")
    body = strip_doc(f.body)
    if ast.unparse(body[0]) != N("if job.stop_retry:\n    return (False, None)"):
        raise Unsupported("eval_policy: stop_retry guard")
    tr = [s for s in body if isinstance(s, ast.Try)]
    if len(tr) != 1:
        raise Unsupported("eval_policy: try")
    tb = tr[0].body
    if ast.unparse(tb[0]) != N("should_retry = policy.should_retry(job.attempt, job.delegate_future)") or \
       ast.unparse(tb[1]) != N("if should_retry:\n    sleep_time = policy.sleep_time(job.attempt, job.delegate_future)\nelse:\n    sleep_time = None") or \
       ast.unparse(tb[2]) != N("return (should_retry, sleep_time)"):
        raise Unsupported("eval_policy: body")
    h = tr[0].handlers
    if len(h) != 1 or ast.unparse(h[0].type) != "Exception" or ast.unparse(h[0].body[-1]) != N("return (False, None)"):
        raise Unsupported("eval_policy: handler")
    out.append(textwrap.dedent("""\
    (* eval_policy: a stop_retry job never consults the policy; should_retry is consulted once with the job's
       attempt number, sleep_time only when it said yes; an exception from either ends retrying *)
    Definition eval_policy (stop : bool) (sr : policy_answer bool) (st : policy_answer Q) : bool * option Q :=
      if stop then (false, None)
      else match sr with
           | Raises => (false, None)
           | Answer false => (false, None)
           | Answer true => match st with Raises => (false, None) | Answer d => (true, Some d) end
           end."""))
    emit("RetryGen.v", "\n".join(out) + "\n")


def gen_timeout():
    tree = parse("timeout.py")
    out = [HEADER % "more_executors/_impl/timeout.py"]
    f = find(tree, "TimeoutExecutor", "_partition_jobs")
    body = strip_doc(f.body)
    if [ast.unparse(s) for s in body[:3]] != [N("pending = []"), N("overdue = []"), N("now = monotonic()")] or \
            not isinstance(body[3], ast.For) or ast.unparse(body[3].iter) != "self._jobs" or \
            ast.unparse(body[4]) != N("return (pending, overdue)") or len(body) != 5:
        raise Unsupported("_partition_jobs shape")
    ex = Ex({"job.future.done()": ("(isdone job)", "bool"), "job.deadline": ("(tj_deadline job)", "Z"),
             "now": ("now", "Z"), "job": ("job", "val")},
            {"pending": ("pending", "list"), "overdue": ("overdue", "list")})
    blk = Block(ex, ["pending", "overdue"])
    txt = blk.compile(body[3].body, lambda: "inr (pending, overdue)")
    out.append(textwrap.dedent("""\
    Definition partition_body (isdone : tjob -> bool) (now : Z) (acc : list tjob * list tjob) (job : tjob)
      : unit + (list tjob * list tjob) :=
      let '(pending, overdue) := acc in %s.
    Fixpoint partition_loop (isdone : tjob -> bool) (now : Z) (acc : list tjob * list tjob) (jobs : list tjob)
      : list tjob * list tjob :=
      match jobs with
      | [] => acc
      | job :: r => match partition_body isdone now acc job with inl _ => acc | inr a => partition_loop isdone now a r end
      end.
    Definition partition_jobs (isdone : tjob -> bool) (now : Z) (jobs : list tjob) := partition_loop isdone now ([], []) jobs.""") % txt)
    # wait computation of _job_loop_iter
    f = find(tree, "TimeoutExecutor", "_job_loop_iter")
    body = strip_doc(f.body)
    srcs = [ast.unparse(s) for s in body]
    want = N("if pending:\n    earliest = min([job.deadline for job in pending])\n    wait_time = max(earliest - monotonic(), 0)")
    if "wait_time = None" not in srcs or want not in srcs:
        raise Unsupported("_job_loop_iter wait computation")
    i = srcs.index(want)
    inner = body[i].body[1].value           # max(earliest - monotonic(), 0)
    ex = Ex({"earliest": ("earliest", "Z"), "monotonic()": ("now2", "Z")})
    t, ty = ex.expr(inner)
    out.append(textwrap.dedent("""\
    Definition wait_time (pending : list tjob) (now2 : Z) : option Z :=
      match pending with
      | [] => None
      | j :: r => let earliest := fold_left Z.min (map tj_deadline r) (tj_deadline j) in Some %s
      end.""") % t)
    # order of the iteration: lock; partition; assign; cancel overdue; compute wait
    need = [N("with executor._jobs_lock:\n    (pending, overdue) = executor._partition_jobs()\n    executor._jobs = pending"),
            N("for job in overdue:\n    executor._do_cancel(job)")]
    for w in need:
        if w not in srcs:
            raise Unsupported("_job_loop_iter shape: " + w[:40])
    # deadline computation in submit_timeout
    f = find(tree, "TimeoutExecutor", "submit_timeout")
    srcs = [ast.unparse(s) for s in ast.walk(f) if isinstance(s, ast.Assign)]
    if N("job = Job(future, delegate_future, monotonic() + timeout)") not in srcs:
        raise Unsupported("submit_timeout deadline")
    out.append("Definition deadline_of (now timeout : Z) : Z := (now + timeout)%Z.")
    emit("TimeoutGen.v", "\n".join(out) + "\n")


def gen_bool():
    tree = parse("futures/bool.py")
    out = [HEADER % "more_executors/_impl/futures/bool.py"]

    def kernel(cls, cname):
        f = find(tree, cls, "get_state_update")
        body = strip_doc(f.body)
        if [ast.unparse(s) for s in body[:3]] != [N("set_result = False"), N("set_exception = False"), N("cancel_futures = set()")] or \
                ast.unparse(body[-1]) != N("return (set_result, set_exception, cancel_futures)"):
            raise Unsupported(cls + ".get_state_update frame")
        voc = {"self.fs": ("fs", "list"), "f.cancelled()": ("(v_cancelled f)", "bool"),
               "f.exception() is not None": ("(v_failed f)", "bool"), "f.exception() is None": ("(negb (v_failed f))", "bool"),
               "f.result()": ("(v_truthy f)", "bool"),
               "list(self.fs.keys())": ("fs", "list")}
        ex = Ex(voc, {"set_result": ("set_result", "bool"), "set_exception": ("set_exception", "bool"),
                      "cancel_futures": ("cancel_futures", "list"), "done": ("done", "bool")})

        class B(Block):
            def compile(self, stmts, fall):
                if stmts:
                    s = stmts[0]
                    if ast.unparse(s) == N("self.done = True"):
                        return "(let done := true in %s)" % self.compile(stmts[1:], fall)
                    if ast.unparse(s) == N("cancel_futures.append(self.out)"):
                        return "(let cancel_futures := (cancel_futures ++ [out]) in %s)" % self.compile(stmts[1:], fall)
                return Block.compile(self, stmts, fall)

        blk = B(ex, [])
        txt = blk.compile(body[3:-1], lambda: "(done, set_result, set_exception, cancel_futures)")
        out.append(textwrap.dedent("""\
        Definition %s (fs : list nat) (out : nat) (f : fview) : bool * bool * bool * list nat :=
          let done := false in let set_result := false in let set_exception := false in
          let cancel_futures := @nil nat in
          %s.""") % (cname, txt))

    kernel("OrOperation", "or_update")
    kernel("AndOperation", "and_update")
    # handle_done frame: under the lock: if done return; del fs[f]; update ; outside: set / copy / cancel
    f = find(tree, "BoolOperation", "handle_done")
    srcs = [ast.unparse(s) for s in strip_doc(f.body)]
    want_with = N("with self.lock:\n    if self.done:\n        return\n    del self.fs[f]\n    (set_result, set_exception, cancel_futures) = self.get_state_update(f)")
    alt_with = N("with self.lock:\n    if self.done:\n        return\n    self.fs.pop(f, None)\n    (set_result, set_exception, cancel_futures) = self.get_state_update(f)")
    if want_with in srcs:
        out.append("Definition bool_remove_tolerant : bool := false.")
    elif alt_with in srcs:
        out.append("Definition bool_remove_tolerant : bool := true.")
    else:
        raise Unsupported("handle_done critical section")
    tail = [N("if set_result:\n    try_set_result(self.out, f.result())"),
            N("if set_exception:\n    copy_future_exception(f, self.out)"),
            N("for to_cancel in cancel_futures:\n    to_cancel.cancel()")]
    i = srcs.index(want_with if want_with in srcs else alt_with)
    if srcs[i + 1:] != tail:
        raise Unsupported("handle_done tail")
    # f_or / f_and: single input returned as is
    for fn in ("f_or", "f_and"):
        g = find(tree, None, fn)
        if ast.unparse(strip_doc(g.body)[0]) != N("if not fs:\n    return f"):
            raise Unsupported(fn + " single input")
    out.append("Definition single_input_identity : bool := true.")
    emit("BoolGen.v", "\n".join(out) + "\n")


def gen_zip():
    tree = parse("futures/zip.py")
    out = [HEADER % "more_executors/_impl/futures/zip.py"]
    # tuple-class threshold
    thr = None
    for n in tree.body:
        if isinstance(n, ast.For) and ast.unparse(n.iter).startswith("range(0, "):
            thr = int(ast.unparse(n.iter)[len("range(0, "):-1])
    if thr is None:
        raise Unsupported("TUPLE_CLASSES loop")
    out.append("Definition tuple_classes : Z := %d." % thr)
    f = find(tree, None, "maketuple")
    if ast.unparse(strip_doc(f.body)[1]) != N("if vlen < len(TUPLE_CLASSES):\n    return TUPLE_CLASSES[vlen](*value)"):
        raise Unsupported("maketuple")
    # Zipper.handle_done decision under the lock
    f = find(tree, "Zipper", "handle_done")
    body = strip_doc(f.body)
    if [ast.unparse(s) for s in body[:3]] != [N("set_result = False"), N("set_exception = False"), N("cancel = False")]:
        raise Unsupported("Zipper.handle_done inits")
    w = body[3]
    if not isinstance(w, ast.With) or ast.unparse(w.items[0].context_expr) != "self.lock" or len(w.body) != 1:
        raise Unsupported("Zipper.handle_done with")
    voc = {"self.done": ("done", "bool"), "f.cancelled()": ("(v_cancelled f)", "bool"),
           "f.exception() is not None": ("(v_failed f)", "bool"), "self.count_remaining": ("remaining", "Z")}
    ex = Ex(voc, {"set_result": ("set_result", "bool"), "set_exception": ("set_exception", "bool"),
                  "cancel": ("cancel", "bool"), "done": ("done", "bool"), "remaining": ("remaining", "Z"),
                  "store": ("store", "bool")})

    class B(Block):
        def compile(self, stmts, fall):
            if stmts:
                s = stmts[0]
                u = ast.unparse(s)
                if u == "pass":
                    return self.compile(stmts[1:], fall)
                if u == N("self.done = True"):
                    return "(let done := true in %s)" % self.compile(stmts[1:], fall)
                if u == N("self.fs[index] = f.result()"):
                    return "(let store := true in %s)" % self.compile(stmts[1:], fall)
                if u == N("self.count_remaining -= 1"):
                    return "(let remaining := (remaining - 1)%%Z in %s)" % self.compile(stmts[1:], fall)
            return Block.compile(self, stmts, fall)

    blk = B(ex, [])
    txt = blk.compile(w.body, lambda: "(done, remaining, store, set_result, set_exception, cancel)")
    out.append(textwrap.dedent("""\
    (* returns (done', remaining', store slot?, set_result, set_exception, cancel) *)
    Definition zip_update (done : bool) (remaining : Z) (f : fview) : bool * Z * bool * bool * bool * bool :=
      let store := false in let set_result := false in let set_exception := false in let cancel := false in
      %s.""") % txt)
    tail = [ast.unparse(s) for s in body[4:]]
    if tail != [N("if cancel:\n    self.out.cancel()"), N("if set_result:\n    try_set_result(self.out, maketuple(self.fs))"),
                N("if set_exception:\n    copy_future_exception(f, self.out)")]:
        raise Unsupported("Zipper.handle_done tail")
    # constructor: count_remaining = len(fs); callbacks bound to their index
    f = find(tree, "Zipper", "__init__")
    srcs = [ast.unparse(s) for s in strip_doc(f.body)]
    for wnt in [N("self.fs = list(fs)"), N("self.count_remaining = len(self.fs)"),
                N("for (idx, future) in enumerate(self.fs):\n    chain_cancel(self.out, future)\n    future.add_done_callback(weak_callback(partial(self.handle_done, idx)))")]:
        if wnt not in srcs:
            raise Unsupported("Zipper.__init__: " + wnt[:40])
    g = find(tree, None, "f_zip")
    if ast.unparse(strip_doc(g.body)[0]) != N("if not fs:\n    return f_return(maketuple([]))"):
        raise Unsupported("f_zip empty")
    emit("ZipGen.v", "\n".join(out) + "\n")


def gen_throttle():
    tree = parse("throttle.py")
    out = [HEADER % "more_executors/_impl/throttle.py"]
    f = find(tree, None, "_submit_loop_iter")
    body = strip_doc(f.body)
    srcs = [ast.unparse(s) for s in body]
    if N("throttle = executor._eval_throttle()") not in srcs or N("to_submit = []") not in srcs:
        raise Unsupported("_submit_loop_iter head")
    w = [s for s in body if isinstance(s, ast.With)]
    if len(w) != 1 or ast.unparse(w[0].items[0].context_expr) != "executor._lock":
        raise Unsupported("_submit_loop_iter lock")
    loop = w[0].body[0]
    if not isinstance(loop, ast.While) or ast.unparse(loop.test) != "executor._to_submit":
        raise Unsupported("admission loop")
    lb = [s for s in loop.body]
    if not isinstance(lb[0], ast.If):
        raise Unsupported("admission test")
    # admission test: `throttle is not None and executor._running_count.value >= throttle`
    ex = Ex({"throttle": ("throttle", "opt"), "executor._running_count.value": ("running", "Z")})
    test = lb[0].test
    if not (isinstance(test, ast.BoolOp) and isinstance(test.op, ast.And) and ast.unparse(test.values[0]) == "throttle is not None"):
        raise Unsupported("admission test shape")
    ex2 = Ex({"throttle": ("t", "Z"), "executor._running_count.value": ("running", "Z")})
    cmp_t, _ = ex2.expr(test.values[1])
    if not any(isinstance(s, ast.Break) for s in lb[0].body):
        raise Unsupported("admission break")
    rest = [ast.unparse(s) for s in lb[1:] if not (isinstance(s, ast.Expr) and "log" in ast.unparse(s))]
    if rest != [N("job = executor._to_submit.popleft()"), N("to_submit.append(job)"), N("executor._running_count.incr()"),
                N("metrics.THROTTLE_QUEUE.labels(executor=executor._name).dec()")]:
        raise Unsupported("admission body " + str(rest))
    out.append(textwrap.dedent("""\
    (* one test of the admission loop: true = stop admitting (throttled) *)
    Definition throttled (throttle : option Z) (running : Z) : bool :=
      match throttle with None => false | Some t => %s end.
    (* the whole loop under the executor lock: pops from the left while not throttled, counting each job *)
    Fixpoint admission (throttle : option Z) (running : Z) (queue : list nat) : list nat * list nat * Z :=
      match queue with
      | [] => ([], [], running)
      | j :: r => if throttled throttle running then ([], queue, running)
                  else let '(adm, rest, run') := admission throttle (running + 1)%%Z r in (j :: adm, rest, run')
      end.""") % cmp_t)
    ret = body[-1]
    if ast.unparse(ret) != N("return (executor._event, 30.0 if executor._running_count.value else 2.0)"):
        raise Unsupported("_submit_loop_iter wait choice")
    out.append("Definition loop_wait (running : Z) : Z := if negb (Z.eqb running 0) then 30 else 2.")
    # _eval_throttle: last good value kept on exception
    f = find(tree, "ThrottleExecutor", "_eval_throttle")
    b = strip_doc(f.body)
    if not (isinstance(b[0], ast.Try) and ast.unparse(b[0].body[0]) == N("self._last_throttle = self._throttle()")
            and ast.unparse(b[0].handlers[0].type) == "Exception" and ast.unparse(b[1]) == N("return self._last_throttle")):
        raise Unsupported("_eval_throttle")
    out.append(textwrap.dedent("""\
    Definition eval_throttle (last : option Z) (ans : policy_answer (option Z)) : option Z :=
      match ans with Answer v => v | Raises => last end."""))
    # _block_until_ready test
    f = find(tree, "ThrottleExecutor", "_block_until_ready")
    b = strip_doc(f.body)
    if not (isinstance(b[0], ast.While) and ast.unparse(b[0].test) == N("self._block and (not self._shutdown.is_shutdown)")):
        raise Unsupported("_block_until_ready loop")
    t0 = b[0].body[0]
    if not isinstance(t0, ast.If) or ast.unparse(t0.body[0]) != N("return"):
        raise Unsupported("_block_until_ready test")
    src = ast.unparse(t0.test)
    if src == N("len(self._to_submit) < throttle_val"):
        out.append("Definition block_ready (qlen : Z) (throttle : option Z) : option bool :=\n"
                   "  match throttle with None => None (* TypeError: '<' between int and None *) | Some t => Some (Z.ltb qlen t) end.")
    elif src in (N("throttle_val is None or len(self._to_submit) < throttle_val"),):
        out.append("Definition block_ready (qlen : Z) (throttle : option Z) : option bool :=\n"
                   "  match throttle with None => Some true | Some t => Some (Z.ltb qlen t) end.")
    else:
        raise Unsupported("_block_until_ready test: " + src)
    emit("ThrottleGen.v", "\n".join(out) + "\n")


PROXY_BINOPS = {ast.Add: "OpAdd", ast.Sub: "OpSub", ast.Mult: "OpMul", ast.Div: "OpTrueDiv", ast.FloorDiv: "OpFloorDiv",
                ast.Mod: "OpMod", ast.LShift: "OpLShift", ast.RShift: "OpRShift", ast.BitAnd: "OpAnd",
                ast.BitXor: "OpXor", ast.BitOr: "OpOr", ast.Pow: "OpPow", ast.MatMult: "OpMatMul"}
PROXY_UNOPS = {ast.USub: "OpNeg", ast.UAdd: "OpPos", ast.Invert: "OpInvert"}


def gen_proxy():
    tree = parse("futures/proxy.py")
    out = [HEADER % "more_executors/_impl/futures/proxy.py"]
    cls = [n for n in tree.body if isinstance(n, ast.ClassDef) and n.name == "ProxyFuture"]
    if not cls:
        raise Unsupported("ProxyFuture")
    entries = []
    R = "self.__result"
    for m in cls[0].body:
        if not isinstance(m, ast.FunctionDef):
            continue
        name = m.name
        if name in ("__init__", "__result", "__getattr__"):
            continue
        body = strip_doc(m.body)
        if len(body) != 1:
            raise Unsupported("proxy method %s: body" % name)
        s = body[0]
        if name in ("__bool__", "__nonzero__"):
            entries.append((name, "FConst"))
            continue
        if isinstance(s, ast.Return):
            v = s.value
            if isinstance(v, ast.BinOp) and ast.unparse(v.left) == R and ast.unparse(v.right) == "other" and type(v.op) in PROXY_BINOPS:
                entries.append((name, "FBinOp %s" % PROXY_BINOPS[type(v.op)]))
                continue
            if isinstance(v, ast.UnaryOp) and ast.unparse(v.operand) == R and type(v.op) in PROXY_UNOPS:
                entries.append((name, "FUnOp %s" % PROXY_UNOPS[type(v.op)]))
                continue
            if isinstance(v, ast.Call) and isinstance(v.func, ast.Name) and v.args and ast.unparse(v.args[0]) == R:
                entries.append((name, 'FBuiltin "%s"' % v.func.id))
                continue
            if isinstance(v, ast.Call) and isinstance(v.func, ast.Attribute) and ast.unparse(v.func.value) == "math" \
                    and v.args and ast.unparse(v.args[0]) == R:
                entries.append((name, 'FBuiltin "math.%s"' % v.func.attr))
                continue
            if isinstance(v, ast.Call) and isinstance(v.func, ast.Attribute) and ast.unparse(v.func.value) == R:
                entries.append((name, 'FMethodCall "%s"' % v.func.attr))
                continue
            if isinstance(v, ast.Subscript) and ast.unparse(v.value) == R:
                entries.append((name, "FGetItem"))
                continue
            if isinstance(v, ast.Compare) and isinstance(v.ops[0], ast.In) and ast.unparse(v.comparators[0]) == R:
                entries.append((name, "FContains"))
                continue
            raise Unsupported("proxy method %s: %s" % (name, ast.unparse(v)))
        if isinstance(s, ast.Assign) and isinstance(s.targets[0], ast.Subscript) and ast.unparse(s.targets[0].value) == R:
            entries.append((name, "FSetItem"))
            continue
        if isinstance(s, ast.Delete) and isinstance(s.targets[0], ast.Subscript) and ast.unparse(s.targets[0].value) == R:
            entries.append((name, "FDelItem"))
            continue
        raise Unsupported("proxy method %s" % name)
    out.append("From Coq Require Import String.\nOpen Scope string_scope.")
    out.append("Definition proxy_table : list (string * pform) :=\n  [ " +
               ";\n    ".join('("%s", %s)' % (n, f) for (n, f) in entries) + " ].")
    # __getattr__ guard
    ga = find(tree, "ProxyFuture", "__getattr__")
    srcs = [ast.unparse(s) for s in strip_doc(ga.body)]
    if srcs != [N("if name == '_ProxyFuture__result':\n    raise self.exception()"),
                N("if name.startswith('__'):\n    raise AttributeError()"),
                N("return getattr(self.__result, name)")]:
        raise Unsupported("__getattr__ guard")
    out.append("Definition getattr_dunder_guard : bool := true.")
    # f_nocancel: NoCancelFuture.cancel() is the constant False; the wrapper is a MapFuture with identity
    tn = parse("futures/nocancel.py")
    c = find(tn, "NoCancelFuture", "cancel")
    if [ast.unparse(x) for x in strip_doc(c.body)] != [N("return False")]:
        raise Unsupported("NoCancelFuture.cancel")
    cls = [n for n in tn.body if isinstance(n, ast.ClassDef) and n.name == "NoCancelFuture"][0]
    if [ast.unparse(b) for b in cls.bases] != ["MapFuture"] or len([m for m in cls.body if isinstance(m, ast.FunctionDef)]) != 1:
        raise Unsupported("NoCancelFuture shape")
    g = find(tn, None, "f_nocancel")
    if ast.unparse(strip_doc(g.body)[-1]) != N("return track_future(NoCancelFuture(future, lambda x: x), type='nocancel')"):
        raise Unsupported("f_nocancel")
    out.append("Definition nocancel_cancel_is_false : bool := true.")
    out.append("Definition nocancel_is_identity_map : bool := true.")
    emit("ProxyGen.v", "\n".join(out) + "\n")


# ---- second ProxyFuture kernel file: the code around the dunder table (Model/Proxy2.v, Props/C17_more.v) -------------
def _coq_str(x):
    if '"' in x or "\\" in x or "\n" in x:
        raise Unsupported("string literal %r" % x)
    return '"%s"' % x


def _texpr(e, env=None):
    """the expression f_proxy hands to ProxyFuture as `timeout` -> texpr (Base/ProxyPrelude.v)"""
    if isinstance(e, ast.Constant) and e.value is None:
        return "TENone"
    if isinstance(e, ast.Constant) and type(e.value) is int:
        return "(TEInt (%d)%%Z)" % e.value
    if isinstance(e, ast.Constant) and type(e.value) is float and e.value == int(e.value):
        return "(TEInt (%d)%%Z)" % int(e.value)
    if isinstance(e, ast.Name) and e.id == "MAX_TIMEOUT":
        return "TEMax"
    if isinstance(e, ast.Name) and env is not None and e.id in env:
        return env[e.id]
    if isinstance(e, ast.Call) and isinstance(e.func, ast.Attribute) and ast.unparse(e.func.value) == "kwargs" \
            and e.func.attr in ("pop", "get") and not e.keywords and 1 <= len(e.args) <= 2 \
            and isinstance(e.args[0], ast.Constant) and isinstance(e.args[0].value, str):
        if len(e.args) == 1 and e.func.attr == "pop":
            raise Unsupported("kwargs.pop without default raises KeyError")
        d = _texpr(e.args[1], env) if len(e.args) == 2 else "TENone"
        return "(TEKw %s %s %s)" % ("true" if e.func.attr == "pop" else "false", _coq_str(e.args[0].value), d)
    if isinstance(e, ast.BoolOp) and isinstance(e.op, ast.Or):
        out = _texpr(e.values[-1], env)
        for v in reversed(e.values[:-1]):
            out = "(TEOr %s %s)" % (_texpr(v, env), out)
        return out
    if isinstance(e, ast.IfExp):
        t = e.test
        if isinstance(t, ast.Compare) and len(t.ops) == 1 and isinstance(t.comparators[0], ast.Constant) and t.comparators[0].value is None:
            if isinstance(t.ops[0], ast.Is):
                return "(TEIfIsNone %s %s %s)" % (_texpr(t.left, env), _texpr(e.body, env), _texpr(e.orelse, env))
            if isinstance(t.ops[0], ast.IsNot):
                return "(TEIfIsNotNone %s %s %s)" % (_texpr(t.left, env), _texpr(e.body, env), _texpr(e.orelse, env))
        return "(TEIfTruth %s %s %s)" % (_texpr(t, env), _texpr(e.body, env), _texpr(e.orelse, env))
    raise Unsupported("timeout expression %s" % ast.unparse(e))


def _bexp(e, params):
    """a ProxyFuture method body expression -> bexp"""
    u = ast.unparse(e)
    if u == "self.__result":
        return "BResult"
    if isinstance(e, ast.Name) and e.id in params:
        return "(BArg %s)" % _coq_str(e.id)
    if isinstance(e, ast.Constant) and e.value is True:
        return "BTrue"
    if isinstance(e, ast.Constant) and e.value is False:
        return "BFalse"
    if isinstance(e, ast.BinOp) and type(e.op) in PROXY_BINOPS:
        return "(BBin %s %s %s)" % (PROXY_BINOPS[type(e.op)], _bexp(e.left, params), _bexp(e.right, params))
    if isinstance(e, ast.UnaryOp) and type(e.op) in PROXY_UNOPS:
        return "(BUn %s %s)" % (PROXY_UNOPS[type(e.op)], _bexp(e.operand, params))
    if isinstance(e, ast.Subscript):
        return "(BGetItem %s %s)" % (_bexp(e.value, params), _bexp(e.slice, params))
    if isinstance(e, ast.Compare) and len(e.ops) == 1 and isinstance(e.ops[0], ast.In):
        return "(BContains %s %s)" % (_bexp(e.left, params), _bexp(e.comparators[0], params))
    if isinstance(e, ast.Call) and not e.keywords:
        def arg(a):
            if isinstance(a, ast.Starred):
                if isinstance(a.value, ast.Name) and a.value.id in params:
                    return "(BStar %s)" % _coq_str(a.value.id)
                raise Unsupported("starred argument %s" % ast.unparse(a))
            return _bexp(a, params)
        args = "[" + "; ".join(arg(a) for a in e.args) + "]"
        f = e.func
        if isinstance(f, ast.Name) and f.id not in params:
            return "(BCall %s %s)" % (_coq_str(f.id), args)
        if isinstance(f, ast.Attribute) and isinstance(f.value, ast.Name) and f.value.id == "math":
            return "(BCall %s %s)" % (_coq_str("math." + f.attr), args)
        if isinstance(f, ast.Attribute) and isinstance(f.value, ast.Name) and f.value.id == "self":
            if e.args:
                raise Unsupported("self method call with arguments: %s" % u)
            return "(BSelfMethod %s)" % _coq_str(f.attr)
        if isinstance(f, ast.Attribute):
            return "(BMethod %s %s %s)" % (_bexp(f.value, params), _coq_str(f.attr), args)
    raise Unsupported("proxy body expression %s" % u)


def _mangle(cls, name):
    return "_%s%s" % (cls.lstrip("_"), name) if name.startswith("__") and not name.endswith("__") else name


def _class_names(tree, cname):
    """(names bound in the class body, names assigned on self in its methods), private names mangled"""
    cls = [n for n in tree.body if isinstance(n, ast.ClassDef) and n.name == cname]
    if not cls:
        raise Unsupported("class %s" % cname)
    cattrs, iattrs = [], []
    for m in cls[0].body:
        if isinstance(m, ast.FunctionDef):
            cattrs.append(_mangle(cname, m.name))
            for n in ast.walk(m):
                if isinstance(n, (ast.Assign, ast.AugAssign, ast.AnnAssign)):
                    for t in (n.targets if isinstance(n, ast.Assign) else [n.target]):
                        if isinstance(t, ast.Attribute) and isinstance(t.value, ast.Name) and t.value.id == "self":
                            a = _mangle(cname, t.attr)
                            if a not in iattrs:
                                iattrs.append(a)
        elif isinstance(m, ast.Assign):
            for t in m.targets:
                if isinstance(t, ast.Name):
                    cattrs.append(_mangle(cname, t.id))
        elif isinstance(m, (ast.Expr, ast.Pass)):
            continue
        else:
            raise Unsupported("class %s: member %s" % (cname, type(m).__name__))
    return cattrs, iattrs


def gen_proxy2():
    tree = parse("futures/proxy.py")
    out = [HEADER % "more_executors/_impl/futures/proxy.py, nocancel.py, map.py, common.py (the code around the dunder table)"]
    out.append("From Coq Require Import String.\nFrom ME Require Import Base.ProxyPrelude.\nOpen Scope string_scope.")
    # 1. f_proxy: the timeout handed to ProxyFuture
    g = find(tree, None, "f_proxy")
    body = strip_doc(g.body)
    if not body or not isinstance(body[-1], ast.Return):
        raise Unsupported("f_proxy body")
    if sum(1 for n in ast.walk(g) if isinstance(n, ast.Call) and ast.unparse(n.func) in ("kwargs.pop", "kwargs.get", "kwargs.setdefault")) > 1:
        raise Unsupported("f_proxy: kwargs read more than once")
    env = {}
    for st in body[:-1]:
        # local assignments before the return: `x = e` and `if <test on a local>: x = e`, kept as expressions over kwargs
        if isinstance(st, ast.Assign) and len(st.targets) == 1 and isinstance(st.targets[0], ast.Name):
            env[st.targets[0].id] = _texpr(st.value, env)
        elif isinstance(st, ast.If) and not st.orelse and len(st.body) == 1 and isinstance(st.body[0], ast.Assign) \
                and len(st.body[0].targets) == 1 and isinstance(st.body[0].targets[0], ast.Name):
            x = st.body[0].targets[0].id
            cur = env.get(x)
            if cur is None:
                raise Unsupported("f_proxy: conditional assignment to an unbound local")
            t = st.test
            val = _texpr(st.body[0].value, env)
            if isinstance(t, ast.Compare) and len(t.ops) == 1 and isinstance(t.comparators[0], ast.Constant) and t.comparators[0].value is None \
                    and isinstance(t.ops[0], (ast.Is, ast.IsNot)):
                env[x] = "(%s %s %s %s)" % ("TEIfIsNone" if isinstance(t.ops[0], ast.Is) else "TEIfIsNotNone", _texpr(t.left, env), val, cur)
            elif isinstance(t, ast.UnaryOp) and isinstance(t.op, ast.Not):
                env[x] = "(TEIfTruth %s %s %s)" % (_texpr(t.operand, env), cur, val)
            else:
                env[x] = "(TEIfTruth %s %s %s)" % (_texpr(t, env), val, cur)
        else:
            raise Unsupported("f_proxy statement: %s" % ast.unparse(st))
    c = body[-1].value
    if not (isinstance(c, ast.Call) and ast.unparse(c.func) == "track_future" and len(c.args) == 1
            and [(k.arg, ast.unparse(k.value)) for k in c.keywords] == [("type", "'proxy'")]):
        raise Unsupported("f_proxy: track_future call")
    pc = c.args[0]
    if not (isinstance(pc, ast.Call) and ast.unparse(pc.func) == "ProxyFuture" and [ast.unparse(a) for a in pc.args] == ["f"]
            and [k.arg for k in pc.keywords] == ["timeout"]):
        raise Unsupported("f_proxy: ProxyFuture construction")
    if [a.arg for a in g.args.args] != ["f"] or g.args.vararg or not g.args.kwarg or g.args.kwarg.arg != "kwargs" or g.args.kwonlyargs:
        raise Unsupported("f_proxy signature")
    out.append("Definition proxy_timeout_expr : texpr := %s." % _texpr(pc.keywords[0].value, env))
    # 2. __init__ keeps it, __result passes it to self.result
    ini = find(tree, "ProxyFuture", "__init__")
    if [a.arg for a in ini.args.args] != ["self", "delegate", "timeout"] or \
            [ast.unparse(s) for s in strip_doc(ini.body)] != [N("self.__timeout = timeout"), N("super(ProxyFuture, self).__init__(delegate)")]:
        raise Unsupported("ProxyFuture.__init__")
    out.append("Definition proxy_init_stores_timeout : bool := true.")
    res = find(tree, "ProxyFuture", "__result")
    if [ast.unparse(d) for d in res.decorator_list] != ["property"] or len(strip_doc(res.body)) != 1:
        raise Unsupported("ProxyFuture.__result")
    r = strip_doc(res.body)[0]
    if not (isinstance(r, ast.Return) and isinstance(r.value, ast.Call) and ast.unparse(r.value.func) == "self.result" and not r.value.keywords):
        raise Unsupported("ProxyFuture.__result body")
    ra = r.value.args
    if len(ra) == 0:
        out.append("Definition proxy_result_timeout : tsource := TSNoTimeout.")
    elif len(ra) == 1 and ast.unparse(ra[0]) == "self.__timeout":
        out.append("Definition proxy_result_timeout : tsource := TSConfigured.")
    elif len(ra) == 1 and isinstance(ra[0], ast.Constant) and type(ra[0].value) is int:
        out.append("Definition proxy_result_timeout : tsource := TSConst (%d)%%Z." % ra[0].value)
    else:
        raise Unsupported("ProxyFuture.__result timeout argument")
    # 3. every other method, translated expression by expression
    cls = [n for n in tree.body if isinstance(n, ast.ClassDef) and n.name == "ProxyFuture"][0]
    if [ast.unparse(b) for b in cls.bases] != ["MapFuture"]:
        raise Unsupported("ProxyFuture bases")
    meths = []
    for m in cls.body:
        if not isinstance(m, ast.FunctionDef) or m.name in ("__init__", "__result", "__getattr__"):
            continue
        if m.decorator_list or m.args.kwarg or m.args.kwonlyargs or m.args.defaults or not m.args.args or m.args.args[0].arg != "self":
            raise Unsupported("proxy method %s: signature" % m.name)
        params = [(a.arg, False) for a in m.args.args[1:]] + ([(m.args.vararg.arg, True)] if m.args.vararg else [])
        names = [p[0] for p in params]
        b = strip_doc(m.body)
        if len(b) != 1:
            raise Unsupported("proxy method %s: body" % m.name)
        s = b[0]
        if isinstance(s, ast.Return) and s.value is not None:
            term = _bexp(s.value, names)
        elif isinstance(s, ast.Assign) and len(s.targets) == 1 and isinstance(s.targets[0], ast.Subscript):
            term = "(BSetItem %s %s %s)" % (_bexp(s.targets[0].value, names), _bexp(s.targets[0].slice, names), _bexp(s.value, names))
        elif isinstance(s, ast.Delete) and len(s.targets) == 1 and isinstance(s.targets[0], ast.Subscript):
            term = "(BDelItem %s %s)" % (_bexp(s.targets[0].value, names), _bexp(s.targets[0].slice, names))
        else:
            raise Unsupported("proxy method %s: statement" % m.name)
        meths.append("(%s, [%s], %s)" % (_coq_str(m.name), "; ".join("(%s, %s)" % (_coq_str(n), "true" if st else "false") for n, st in params), term))
    out.append("Definition proxy_bodies : list pmethod :=\n  [ " + ";\n    ".join(meths) + " ].")
    # 4. __getattr__
    ga = find(tree, "ProxyFuture", "__getattr__")
    if [a.arg for a in ga.args.args] != ["self", "name"] or ga.args.vararg or ga.args.kwarg or ga.decorator_list:
        raise Unsupported("__getattr__ signature")
    gs = []
    for s in strip_doc(ga.body):
        u = ast.unparse(s)
        if isinstance(s, ast.If) and not s.orelse and len(s.body) == 1 and isinstance(s.test, ast.Compare) and len(s.test.ops) == 1 \
                and isinstance(s.test.ops[0], ast.Eq) and ast.unparse(s.test.left) == "name" and isinstance(s.test.comparators[0], ast.Constant) \
                and isinstance(s.test.comparators[0].value, str) and ast.unparse(s.body[0]) == N("raise self.exception()"):
            gs.append("GIfEqRaiseOwnException %s" % _coq_str(s.test.comparators[0].value))
        elif isinstance(s, ast.If) and not s.orelse and len(s.body) == 1 and isinstance(s.test, ast.Call) \
                and ast.unparse(s.test.func) == "name.startswith" and len(s.test.args) == 1 and not s.test.keywords \
                and isinstance(s.test.args[0], ast.Constant) and isinstance(s.test.args[0].value, str) \
                and ast.unparse(s.body[0]) in (N("raise AttributeError()"), N("raise AttributeError")):
            gs.append("GIfPrefixRaiseAttributeError %s" % _coq_str(s.test.args[0].value))
        elif u == N("return getattr(self.__result, name)"):
            gs.append("GReturnGetattrResult")
        else:
            raise Unsupported("__getattr__ statement: %s" % u)
    out.append("Definition proxy_getattr_body : list gstmt :=\n  [ " + ";\n    ".join(gs) + " ].")
    # 5. what the classes themselves define (found before __getattr__ is consulted); private names mangled
    cattrs, iattrs = [], []
    for rel, cname in (("futures/proxy.py", "ProxyFuture"), ("map.py", "MapFuture"), ("common.py", "_Future")):
        ca, ia = _class_names(parse(rel), cname)
        for a in ca:
            if a not in cattrs:
                cattrs.append(a)
        for a in ia:
            if a not in iattrs:
                iattrs.append(a)
    tm = parse("map.py")
    mcls = [n for n in tm.body if isinstance(n, ast.ClassDef) and n.name == "MapFuture"][0]
    tc = parse("common.py")
    fcls = [n for n in tc.body if isinstance(n, ast.ClassDef) and n.name == "_Future"][0]
    if [ast.unparse(b) for b in mcls.bases] != ["_Future"] or [ast.unparse(b) for b in fcls.bases] != ["Future"]:
        raise Unsupported("MapFuture / _Future bases")
    out.append("Definition proxy_class_attrs : list string :=\n  [ " + "; ".join(_coq_str(a) for a in cattrs) + " ].")
    out.append("Definition proxy_instance_attrs : list string :=\n  [ " + "; ".join(_coq_str(a) for a in iattrs) + " ].")
    # 6. NoCancelFuture / f_nocancel
    tn = parse("futures/nocancel.py")
    ncls = [n for n in tn.body if isinstance(n, ast.ClassDef) and n.name == "NoCancelFuture"]
    if not ncls or [ast.unparse(b) for b in ncls[0].bases] != ["MapFuture"]:
        raise Unsupported("NoCancelFuture bases")
    over = [m.name for m in ncls[0].body if isinstance(m, ast.FunctionDef)]
    if [m for m in ncls[0].body if not isinstance(m, (ast.FunctionDef, ast.Expr, ast.Pass))]:
        raise Unsupported("NoCancelFuture members")
    out.append("Definition nocancel_overrides : list string := [ " + "; ".join(_coq_str(a) for a in over) + " ].")
    if "cancel" in over:
        c = find(tn, "NoCancelFuture", "cancel")
        if [a.arg for a in c.args.args] != ["self"] or c.args.vararg or c.args.kwarg or c.decorator_list:
            raise Unsupported("NoCancelFuture.cancel signature")
        b = [ast.unparse(x) for x in strip_doc(c.body)]
        if b == [N("return False")]:
            out.append("Definition nocancel_cancel_body : ncbody := NCReturnConst false.")
        elif b == [N("return True")]:
            out.append("Definition nocancel_cancel_body : ncbody := NCReturnConst true.")
        elif b in ([N("return super().cancel()")], [N("return super(NoCancelFuture, self).cancel()")]):
            out.append("Definition nocancel_cancel_body : ncbody := NCSuper.")
        else:
            raise Unsupported("NoCancelFuture.cancel body")
    else:
        out.append("Definition nocancel_cancel_body : ncbody := NCSuper.")
    g = find(tn, None, "f_nocancel")
    last = strip_doc(g.body)
    if len(last) != 1 or not isinstance(last[0], ast.Return):
        raise Unsupported("f_nocancel body")
    c = last[0].value
    if not (isinstance(c, ast.Call) and ast.unparse(c.func) == "track_future" and len(c.args) == 1 and isinstance(c.args[0], ast.Call)
            and ast.unparse(c.args[0].func) == "NoCancelFuture" and not c.args[0].keywords and 1 <= len(c.args[0].args) <= 3
            and ast.unparse(c.args[0].args[0]) == "future"):
        raise Unsupported("f_nocancel construction")

    def fn_kind(a):
        if isinstance(a, ast.Constant) and a.value is None:
            return "NFAbsent"
        if isinstance(a, ast.Lambda) and len(a.args.args) == 1 and not a.args.vararg and not a.args.kwarg and not a.args.defaults \
                and isinstance(a.body, ast.Name) and a.body.id == a.args.args[0].arg:
            return "NFIdentity"
        if isinstance(a, ast.Name) and a.id == "identity":
            return "NFIdentity"
        return "NFOther"
    na = c.args[0].args
    out.append("Definition nocancel_map_fn : nfn := %s." % (fn_kind(na[1]) if len(na) > 1 else "NFAbsent"))
    out.append("Definition nocancel_error_fn : nfn := %s." % (fn_kind(na[2]) if len(na) > 2 else "NFAbsent"))
    emit("Proxy2Gen.v", "\n".join(out) + "\n")



def gen_bind():
    out = [HEADER % "more_executors/_impl/executors.py, wrap.py, bind.py"]
    tree = parse("executors.py")
    f = find(tree, "Executors", "_customize")
    srcs = [ast.unparse(s) for s in strip_doc(f.body)]
    want = [N("if isinstance(delegate, BoundCallable):\n    executor = delegate._BoundCallable__executor\n    bound_fn = delegate._BoundCallable__fn\n    new_executor = executor_class(executor, *args, **kwargs)\n    return cls.bind(new_executor, bound_fn)"),
            N("return executor_class(delegate, *args, **kwargs)")]
    if srcs != want:
        raise Unsupported("_customize")
    f = find(tree, "Executors", "flat_bind")
    if ast.unparse(strip_doc(f.body)[-1]) != N("return cls.bind(executor, fn).with_flat_map(lambda f: f)"):
        raise Unsupported("flat_bind")
    f = find(tree, "Executors", "bind")
    if ast.unparse(strip_doc(f.body)[-1]) != N("return BoundCallable(executor, fn)"):
        raise Unsupported("bind")
    layers = []
    for m in [n for n in tree.body if isinstance(n, ast.ClassDef) and n.name == "Executors"][0].body:
        if isinstance(m, ast.FunctionDef) and m.name.startswith("with_"):
            last = strip_doc(m.body)[-1]
            u = ast.unparse(last)
            pre = "return cls._customize(executor, "
            if not u.startswith(pre) or not u.endswith(", *args, **kwargs)"):
                raise Unsupported(m.name)
            layers.append((m.name, u[len(pre):-len(", *args, **kwargs)")]))
    out.append("From Coq Require Import String.\nOpen Scope string_scope.")
    out.append("Definition with_table : list (string * string) :=\n  [ " + ";\n    ".join('("%s", "%s")' % x for x in layers) + " ].")
    tw = parse("wrap.py")
    cc = [n for n in tw.body if isinstance(n, ast.ClassDef) and n.name == "CanCustomize"][0]
    pn = [m for m in cc.body if isinstance(m, ast.FunctionDef) and m.name.endswith("propagate_name")]
    if not pn:
        raise Unsupported("propagate_name")
    b = strip_doc(pn[0].body)
    u = ast.unparse(b[0])
    if not u.startswith("for name_attr in (") or "if hasattr(self, name_attr) and 'name' not in kwargs:\n        kwargs['name'] = getattr(self, name_attr)\n        return" not in u:
        raise Unsupported("propagate_name body")
    attrs = [e.value for e in b[0].iter.elts]
    out.append("Definition name_attrs : list string := [ " + "; ".join('"%s"' % a for a in attrs) + " ].")
    prop = []
    for m in cc.body:
        if isinstance(m, ast.FunctionDef) and m.name.startswith("with_"):
            srcs = [ast.unparse(s) for s in strip_doc(m.body)]
            ok = any("propagate_name(kwargs)" in s for s in srcs) and srcs[-1] == "return Executors.%s(self, *args, **kwargs)" % m.name
            prop.append((m.name, ok))
    out.append("Definition propagating_methods : list (string * bool) :=\n  [ " + "; ".join('("%s", %s)' % (n, "true" if k else "false") for n, k in prop) + " ].")
    tb = parse("bind.py")
    bc = [n for n in tb.body if isinstance(n, ast.ClassDef) and n.name == "BoundCallable"][0]
    call = [m for m in bc.body if isinstance(m, ast.FunctionDef) and m.name == "__call__"][0]
    if ast.unparse(strip_doc(call.body)[-1]) != N("return self.__executor.submit(self.__fn, *args, **kwargs)"):
        raise Unsupported("BoundCallable.__call__")
    has_name = any(isinstance(m, ast.FunctionDef) and m.name == "_name" for m in bc.body) or \
        any("_name" in ast.unparse(s) for m in bc.body if isinstance(m, ast.FunctionDef) and m.name == "__init__" for s in m.body)
    out.append("Definition bound_callable_exposes_name : bool := %s." % ("true" if has_name else "false"))
    # BoundCallable.__init__: update_wrapper(self, fn) copies fn.__dict__ onto self; where are the private
    # attributes assigned relative to it?
    init = [m for m in bc.body if isinstance(m, ast.FunctionDef) and m.name == "__init__"][0]
    pos_wrap, pos_priv = [], []
    for i, st in enumerate(strip_doc(init.body)):
        src = ast.unparse(st)
        if "update_wrapper(self, fn)" in src:
            pos_wrap.append(i)
        if isinstance(st, ast.Assign) and src in (N("self.__executor = executor"), N("self.__fn = fn")):
            pos_priv.append(i)
    if len(pos_wrap) != 1 or len(pos_priv) != 2:
        raise Unsupported("BoundCallable.__init__: update_wrapper / private attribute assignments")
    if not (max(pos_priv) < pos_wrap[0] or min(pos_priv) > pos_wrap[0]):
        raise Unsupported("BoundCallable.__init__: private attributes on both sides of update_wrapper")
    out.append("Definition private_attrs_after_wrapper : bool := %s." % ("true" if min(pos_priv) > pos_wrap[0] else "false"))
    emit("BindGen.v", "\n".join(out) + "\n")


def gen_apply():
    tree = parse("futures/apply.py")
    out = [HEADER % "more_executors/_impl/futures/apply.py"]
    f = find(tree, None, "_wrap_args")
    srcs = [ast.unparse(s) for s in strip_doc(f.body)]
    if srcs != [N("out = list()"), N("for arg in future_args:\n    out.append((ARGS, arg))"),
                N("for (key, value) in future_kwargs.items():\n    out.append((key, value))"), N("return out")]:
        raise Unsupported("_wrap_args")
    f = find(tree, None, "_wrapped_f_apply")
    body = strip_doc(f.body)
    srcs = [ast.unparse(s) for s in body]
    if srcs[0] != N("if not future_args:\n    return wrap(future_fn).with_map(lambda fn: fn())()"):
        raise Unsupported("_wrapped_f_apply base case")
    if srcs[1:4] != [N("future_key_and_x = future_args[0]"), N("(key, future_x) = future_key_and_x"), N("future_args = future_args[1:]")]:
        raise Unsupported("_wrapped_f_apply head/tail")
    runner = [s for s in body if isinstance(s, ast.FunctionDef) and s.name == "fn_runner"]
    if len(runner) != 1:
        raise Unsupported("fn_runner")
    inner = [s for s in runner[0].body if isinstance(s, ast.FunctionDef)][0]
    isrc = [ast.unparse(s) for s in inner.body]
    if isrc[:2] != [N("args = list(args)"), N("kwargs = kwargs.copy()")] or isrc[-1] != N("return fn(*args, **kwargs)"):
        raise Unsupported("fn_runner.out frame")
    iff = inner.body[2]
    if not isinstance(iff, ast.If) or ast.unparse(iff.test) != N("key is ARGS") or ast.unparse(iff.orelse[0]) != N("kwargs[key] = x"):
        raise Unsupported("fn_runner.out branches")
    ins = iff.body[0]
    if not (isinstance(ins, ast.Expr) and isinstance(ins.value, ast.Call) and ast.unparse(ins.value.func) == "args.insert"
            and isinstance(ins.value.args[0], ast.Constant) and ast.unparse(ins.value.args[1]) == "x"):
        raise Unsupported("fn_runner.out insert")
    out.append("Definition runner_insert_at : nat := %d." % ins.value.args[0].value)
    if srcs[-2] != N("next_future_fn = wrap(future_x).with_flat_map(lambda x: wrap(future_fn).with_map(lambda fn: fn_runner(fn, x))())()") or \
            srcs[-1] != N("return _wrapped_f_apply(next_future_fn, future_args)"):
        raise Unsupported("_wrapped_f_apply recursion")
    out.append("Definition apply_recurses_on_tail : bool := true.")
    emit("ApplyGen.v", "\n".join(out) + "\n")


sys.path.insert(0, os.path.dirname(os.path.abspath(__file__)))
import srcfacts      # noqa: E402


def _gen_src(mod):
    def g():
        emit("Src_%s.v" % mod, srcfacts.gen_text(mod))
    return g


KERNELS = [(_gen_src(m), "Src_%s.v" % m) for m in srcfacts.MODULES] + [(gen_retry, "RetryGen.v"), (gen_timeout, "TimeoutGen.v"), (gen_bool, "BoolGen.v"), (gen_zip, "ZipGen.v"),
           (gen_throttle, "ThrottleGen.v"), (gen_proxy, "ProxyGen.v"), (gen_proxy2, "Proxy2Gen.v"), (gen_bind, "BindGen.v"), (gen_apply, "ApplyGen.v")]


import skel2coq      # noqa: E402


def gen_cos_skel():
    """the concurrent skeleton of CancelOnShutdownExecutor (IR of Model/CosIR.v), see tools/skel2coq.py"""
    try:
        skel2coq.generate()
    except skel2coq.Unsupported as e:
        raise Unsupported(str(e))


def gen_gate_skel():
    """helpers.ShutdownHelper on its own, for Model/GateIR.v"""
    try:
        skel2coq.generate("GateSkel.v")
    except skel2coq.Unsupported as e:
        raise Unsupported(str(e))


KERNELS.append((gen_cos_skel, "CosSkel.v"))
KERNELS.append((gen_gate_skel, "GateSkel.v"))

import loop2coq      # noqa: E402


def gen_loop_skel():
    """the four worker loops and their producer sites (protocol IR of Model/LoopIR.v), see tools/loop2coq.py"""
    try:
        loop2coq.generate()
    except loop2coq.Unsupported as e:
        raise Unsupported(str(e))


KERNELS.append((gen_loop_skel, "LoopSkel.v"))

import comb2coq      # noqa: E402


def gen_comb_skel():
    """the concurrent programs of f_or / f_and / f_zip (IR of Model/CombIR.v), see tools/comb2coq.py"""
    try:
        comb2coq.generate()
    except comb2coq.Unsupported as e:
        raise Unsupported(str(e))


KERNELS.append((gen_comb_skel, "CombSkel.v"))

import map2coq      # noqa: E402


def gen_map_skel():
    """the methods of common._Future / MapFuture / FlatMapFuture (IR of Model/MapIR.v), see tools/map2coq.py"""
    try:
        map2coq.generate()
    except map2coq.Unsupported as e:
        raise Unsupported(str(e))


KERNELS.append((gen_map_skel, "MapSkel.v"))


import timeout2coq      # noqa: E402


def gen_timeout_skel():
    """the concurrent methods of TimeoutExecutor (IR of Model/TimeoutIR.v), see tools/timeout2coq.py"""
    try:
        timeout2coq.generate()
    except timeout2coq.Unsupported as e:
        raise Unsupported(str(e))


KERNELS.append((gen_timeout_skel, "TimeoutSkel.v"))


import retry2coq      # noqa: E402


def gen_retry_skel():
    """the method bodies of RetryExecutor / RetryFuture (IR of Model/RetryIR.v), see tools/retry2coq.py"""
    try:
        retry2coq.generate()
    except retry2coq.Unsupported as e:
        raise Unsupported(str(e))


KERNELS.append((gen_retry_skel, "RetrySkel.v"))

import poll2coq      # noqa: E402


def gen_poll_skel():
    """the method bodies of PollExecutor / PollFuture / PollDescriptor (IR of Model/PollIR.v), see tools/poll2coq.py"""
    try:
        poll2coq.generate()
    except poll2coq.Unsupported as e:
        raise Unsupported(str(e))


KERNELS.append((gen_poll_skel, "PollSkel.v"))

import throttle2coq      # noqa: E402


def gen_throttle_skel():
    """the method bodies of ThrottleExecutor / ThrottleFuture / AtomicInt (IR of Model/ThrottleIR.v), see tools/throttle2coq.py"""
    try:
        throttle2coq.generate()
    except throttle2coq.Unsupported as e:
        raise Unsupported(str(e))


KERNELS.append((gen_throttle_skel, "ThrottleSkel.v"))







def main():
    """Each kernel file is generated on its own.  A source shape the translator does not recognise fails CLOSED for
    that kernel only: its Gen file is replaced by one that does not compile, so every model / theorem that imports it
    stops compiling, while the
    properties that do not depend on it are unaffected."""
    failed = []
    for g, name in KERNELS:
        try:
            g()
        except Unsupported as e:
            failed.append((name, "TRANSLATOR-FAIL-CLOSED: %s" % e))
        except (SyntaxError, IndexError, AttributeError, KeyError, ValueError, TypeError, OSError) as e:
            failed.append((name, "TRANSLATOR-FAIL-CLOSED: %s: %s" % (type(e).__name__, e)))
    for name, msg in failed:
        for ext in (".vo", ".vok", ".vos", ".glob"):
            q = os.path.join(OUT, name[:-2] + ext)
            if os.path.exists(q):
                os.remove(q)
        # a file that exists (the build system needs it for its dependency scan) but cannot compile
        emit(name, "(* %s *)\nDefinition translator_failed_closed : True := 0.\n" % msg.replace("*)", "* )").replace("(*", "( *")[:400])
        print("KERNEL-FAILED %s %s" % (name, msg.replace("\n", " ")[:300]))
    print("generated %d kernel files, %d failed closed" % (len(KERNELS) - len(failed), len(failed)))
    sys.exit(3 if failed else 0)


if __name__ == "__main__":
    main()
