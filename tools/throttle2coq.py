#!/usr/bin/env python3
"""Fail-closed translator: the CONCURRENT PROGRAMS of throttle.py
  AtomicInt.incr / decr, ThrottleExecutor.submit / shutdown / _block_until_ready / _eval_throttle / _do_submit /
  _do_cancel / _delegate_future_done, _submit_loop_iter, _submit_loop, ThrottleFuture.__init__ / _me_cancel /
  _clear_executor (with ShutdownHelper.__call__ / ensure_alive of helpers.py inlined)
-> terms of the imperative IR of coq/Model/ThrottleIR.v, emitted as Gallina in coq/Gen/ThrottleSkel.v.

Shape of the compiler (same conventions as tools/skel2coq.py, whose generic helpers are imported, not edited):
  * `with <lock>:` blocks from a lock table keyed by (context, expression text): G = ShutdownHelper._lock,
    X = ThrottleExecutor._lock, A = AtomicInt.lock; `with self._shutdown.ensure_alive():` inlines the @contextmanager at its yield;
  * if / elif / else, `while <cond>:`, `while True:`, `break`, try / except Exception, `for job in to_submit:`,
    `for job in self._to_submit: if job.future is future: ...` (the scan of _do_cancel), return, raise;
  * conditions over a vocabulary of atoms keyed by (context, Python text); and / or / not are kept (short-circuit); the
    comparison that READS `_running_count.value` is a condition with a visible read inside;
  * calls between the translated methods are inlined at the call (SCall "<name>" <body>), arguments evaluated first;
  * leaves: plain statements from a vocabulary keyed by (context, Python text) - the visible operations of
    Model/Throttle.v's alphabet and the silent statements the machine folds into the neighbouring event;
  * the decision kernels (`throttled`, `loop_wait`, `block_ready`, `eval_throttle`) are NOT re-translated: the test /
    expression texts they were generated from are vocabulary entries that name them;
  * logging / metrics statements are dropped through an explicit whitelist, every dropped statement is listed in the
    generated file.  Anything else: TRANSLATOR-FAIL-CLOSED (exit 2; through pyk2coq the Gen file is replaced by one that
    does not compile).

Usage: python3 tools/throttle2coq.py     (VERIF_REPO=<dir> to read another checkout; default /repo)
Registered in tools/pyk2coq.py's KERNELS list, so `bin/check` regenerates Gen/ThrottleSkel.v on every run.
"""
import ast, os, sys

sys.path.insert(0, os.path.dirname(os.path.abspath(__file__)))
import skel2coq as S   # noqa: E402  (generic helpers only)
from skel2coq import Unsupported, U, N, parse, find_class, methods, is_doc, imported_from, pure_arg  # noqa: E402

NAME = "ThrottleSkel.v"
HELPER, ATOMIC, EXEC, FUT = "ShutdownHelper", "AtomicInt", "ThrottleExecutor", "ThrottleFuture"
ITER, LOOP = "_submit_loop_iter", "_submit_loop"

LOCKS = {(HELPER, "self._lock"): "LG", (EXEC, "self._lock"): "LX", (ITER, "executor._lock"): "LX", (ATOMIC, "self.lock"): "LA"}


# ------------------------------------------------------------------------------------------------
# facts
# ------------------------------------------------------------------------------------------------
def find_func(tree, name):
    for n in tree.body:
        if isinstance(n, ast.FunctionDef) and n.name == name:
            return n
    raise Unsupported("function %s not found" % name)


def init_assigns(cls):
    init = methods(cls).get("__init__")
    if init is None:
        raise Unsupported("%s.__init__ not found" % cls.name)
    out = {}
    for s in ast.walk(init):
        if isinstance(s, ast.Assign):
            for t in s.targets:
                k = U(t)
                if k in out:
                    raise Unsupported("%s.__init__ assigns %s twice" % (cls.name, k))
                out[k] = U(s.value)
        elif isinstance(s, (ast.AugAssign, ast.AnnAssign)):
            raise Unsupported("%s.__init__: %s" % (cls.name, U(s)[:60]))
    return out


def only_defs(cls):
    for s in cls.body:
        if not (isinstance(s, ast.FunctionDef) or is_doc(s)):
            raise Unsupported("%s: class-level statement %s" % (cls.name, U(s)[:60]))


EXECUTOR_LOOP_NF = N('''
def executor_loop(fn):
    @wraps(fn)
    def out(*args, **kwargs):
        try:
            return fn(*args, **kwargs)
        except RuntimeError as error:
            if "cannot schedule new futures after" in str(error):
                LOG.debug("Ignoring error due to interpreter shutdown", exc_info=1)
                return
            raise
    return out
''')


def check_facts(tree, helper_tree):
    hm = S.check_helper_facts(helper_tree)
    if U(find_func(helper_tree, "executor_loop")) != EXECUTOR_LOOP_NF.strip():
        raise Unsupported("helpers.executor_loop is not the known transparent wrapper")
    for mod, names in (("threading", ("Thread", "Lock")), ("collections", ("namedtuple", "deque")), ("functools", ("partial",)),
                       ("helpers", ("executor_loop", HELPER)), ("event", ("get_event", "is_shutdown")), ("map", ("MapFuture",)),
                       ("metrics", ("metrics", "track_future")), ("common", ("MAX_TIMEOUT",))):
        for nm in names:
            if not imported_from(tree, mod, nm):
                raise Unsupported("%s is not %s.%s" % (nm, mod, nm))
    for n in tree.body:
        if isinstance(n, (ast.AugAssign, ast.AnnAssign)):
            raise Unsupported("module-level statement " + U(n)[:60])
        if isinstance(n, ast.Assign):
            if U(n) != N('ThrottleJob = namedtuple("ThrottleJob", ["future", "fn", "args", "kwargs"])'):
                raise Unsupported("module-level assignment " + U(n)[:60])
    fut, atomic, ex = find_class(tree, FUT), find_class(tree, ATOMIC), find_class(tree, EXEC)
    for c in (fut, atomic, ex):
        only_defs(c)
    if [U(b) for b in fut.bases] != ["MapFuture"]:
        raise Unsupported("ThrottleFuture bases")
    if sorted(methods(fut)) != ["__init__", "_clear_executor", "_me_cancel"]:
        raise Unsupported("%s has methods %s" % (FUT, sorted(methods(fut))))
    if sorted(methods(atomic)) != ["__init__", "decr", "incr"]:
        raise Unsupported("%s has methods %s" % (ATOMIC, sorted(methods(atomic))))
    want = ["__init__", "_block_until_ready", "_delegate_future_done", "_do_cancel", "_do_submit", "_eval_throttle", "shutdown", "submit"]
    if sorted(methods(ex)) != want:
        raise Unsupported("%s has methods %s" % (EXEC, sorted(methods(ex))))
    ai = init_assigns(atomic)
    if ai.get("self.value") != "0":
        raise Unsupported("AtomicInt.__init__: self.value")
    has_alock = ai.get("self.lock") == "Lock()"
    if set(ai) - {"self.value", "self.lock"}:
        raise Unsupported("AtomicInt.__init__ assigns %s" % sorted(ai))
    ei = init_assigns(ex)
    want_e = {"self._block": "block", "self._delegate": "delegate", "self._to_submit": "deque()", "self._lock": "Lock()",
              "self._event": "get_event()", "self._running_count": "AtomicInt()",
              "self._throttle": N("count if callable(count) else lambda: count").strip(),
              "self._last_throttle": "self._throttle()", "self._shutdown": "ShutdownHelper()", "event": "self._event",
              "self_ref": N("weakref.ref(self, lambda _: event.set())").strip(),
              "self._thread": N("Thread(name='ThrottleExecutor-%s' % name, target=_submit_loop, args=(self_ref,))").strip()}
    for k, v in want_e.items():
        if ei.get(k) != v:
            raise Unsupported("%s.__init__: %s = %s (expected %s)" % (EXEC, k, ei.get(k), v))
    fm, am, em = methods(fut), methods(atomic), methods(ex)
    sigs = [(fm["__init__"], "self, executor", []), (fm["_me_cancel"], "self", []), (fm["_clear_executor"], "cls, future", ["classmethod"]),
            (am["incr"], "self", []), (am["decr"], "self", []),
            (em["submit"], "self, fn, *args, **kwargs", []), (em["shutdown"], "self, wait=True, **_kwargs", []),
            (em["_block_until_ready"], "self, throttle_val", []), (em["_eval_throttle"], "self", []), (em["_do_submit"], "self, job", []),
            (em["_do_cancel"], "self, future", []), (em["_delegate_future_done"], "cls, log, running_count, event, future", ["classmethod"])]
    it, lp = find_func(tree, ITER), find_func(tree, LOOP)
    sigs += [(it, "executor", []), (lp, "executor_ref", ["executor_loop"])]
    for fn, sig, decos in sigs:
        if U(fn.args) != sig:
            raise Unsupported("%s signature: %s" % (fn.name, U(fn.args)))
        if [U(d) for d in fn.decorator_list] != decos:
            raise Unsupported("%s decorators: %s" % (fn.name, [U(d) for d in fn.decorator_list]))
        for n in ast.walk(fn):
            if isinstance(n, (ast.AsyncWith, ast.AsyncFor, ast.Await, ast.Global, ast.Nonlocal, ast.FunctionDef, ast.ClassDef,
                              ast.Delete, ast.NamedExpr, ast.Yield, ast.YieldFrom)) and n is not fn:
                raise Unsupported("%s: construct %s outside the subset" % (fn.name, type(n).__name__))
    return dict(hm=hm, fm=fm, am=am, em=em, it=it, lp=lp, has_alock=has_alock)


# ------------------------------------------------------------------------------------------------
# dropped statements (logging / metrics): explicit whitelist
# ------------------------------------------------------------------------------------------------
LOGGERS = {(EXEC, "self._log"), (ITER, "executor._log"), ("_delegate_future_done", "log")}


def log_arg(e):
    """arguments of dropped log calls: call-free, or len(<call-free>)"""
    if pure_arg(e):
        return True
    return isinstance(e, ast.Call) and isinstance(e.func, ast.Name) and e.func.id == "len" and len(e.args) == 1 \
        and not e.keywords and pure_arg(e.args[0])


def is_dropped(s, cx):
    if not (isinstance(s, ast.Expr) and isinstance(s.value, ast.Call)):
        return False
    c = s.value
    f = c.func
    if isinstance(f, ast.Attribute) and f.attr in ("debug", "exception") and (cx, U(f.value)) in LOGGERS:
        return all(log_arg(a) for a in c.args) and not c.keywords
    if isinstance(f, ast.Name) and f.id == "track_future" and cx == EXEC:
        return len(c.args) == 1 and U(c.args[0]) == "out" and all(pure_arg(k.value) for k in c.keywords)
    if isinstance(f, ast.Attribute) and f.attr in ("inc", "dec") and not c.args and not c.keywords:
        base = f.value
        if isinstance(base, ast.Call) and isinstance(base.func, ast.Attribute) and base.func.attr == "labels":
            if not (all(pure_arg(a) for a in base.args) and all(pure_arg(k.value) for k in base.keywords)):
                return False
            base = base.func.value
        return isinstance(base, ast.Attribute) and isinstance(base.value, ast.Name) and base.value.id == "metrics" and base.attr.isupper()
    return False


# ------------------------------------------------------------------------------------------------
# compiler
# ------------------------------------------------------------------------------------------------
class Cx(object):
    def __init__(self, facts, dropped, silent):
        self.f, self.dropped, self.silent = facts, dropped, silent
        self.depth = 0


def atom(a):
    return ("CAtom", a)


COND_ATOMS = {
    (HELPER, "self.is_shutdown"): "AGateFlag",
    (EXEC, "self._block"): "ABlockMode",
    (EXEC, "self._shutdown.is_shutdown"): "AShutFlag",
    (EXEC, "wait"): "AWaitArg",
    (EXEC, N("throttle_val is None or len(self._to_submit) < throttle_val").strip()): "AReady",    # kernel block_ready
    (FUT, "self._delegate"): "AHasDelegate",
    (FUT, "executor"): "ASavedExecutor",
    (ITER, "executor"): "AExecutor",
    (ITER, "executor._shutdown.is_shutdown"): "AShutFlag",
    (ITER, "is_shutdown()"): "AInterpExit",
    (ITER, "executor._to_submit"): "AQueue",
    (ITER, "throttle is not None"): "ALimit",
    (LOOP, "result"): "ARet",
}


def compile_cond(e, name, cx):
    text = U(e)
    if (name, text) in COND_ATOMS:
        a = COND_ATOMS[(name, text)]
        return ("CRet",) if a == "ARet" else atom(a)
    if name == ITER and text == "executor._running_count.value >= throttle":      # kernel throttled, on a visible read
        return ("CReadRc", "RLoop", atom("AThrottled"))
    if isinstance(e, ast.UnaryOp) and isinstance(e.op, ast.Not):
        return ("CNot", compile_cond(e.operand, name, cx))
    if isinstance(e, ast.BoolOp):
        k = "CAnd" if isinstance(e.op, ast.And) else "COr"
        out = compile_cond(e.values[-1], name, cx)
        for v in reversed(e.values[:-1]):
            out = (k, compile_cond(v, name, cx), out)
        return out
    if isinstance(e, ast.Constant) and e.value is True:
        return ("CTrue",)
    raise Unsupported("condition `%s` in %s" % (text[:70], name))


def inline(label, fn, name, cx):
    if cx.depth > 6:
        raise Unsupported("inlining too deep")
    cx.depth += 1
    body = compile_block(fn.body, name, cx, top=True)
    cx.depth -= 1
    if label in COQNAME:
        return ("SCallRef", label, COQNAME[label], body)      # printed as a reference to the method's own Definition
    return ("SCall", label, body)


def compile_stmt(s, name, cx):
    F = cx.f
    if is_doc(s):
        raise Unsupported("string expression statement inside a body")
    if is_dropped(s, name):
        cx.dropped.append("%s: %s" % (name, " ".join(U(s).split())))
        return []
    text = U(s)
    if isinstance(s, ast.With):
        if len(s.items) != 1 or s.items[0].optional_vars is not None:
            raise Unsupported("with-statement shape: " + text[:60])
        ce = U(s.items[0].context_expr)
        if (name, ce) in LOCKS:
            if LOCKS[(name, ce)] == "LA" and not F["has_alock"]:
                raise Unsupported("AtomicInt.lock is not a Lock()")
            return [("SWith", LOCKS[(name, ce)], compile_block(s.body, name, cx))]
        if name == EXEC and ce == "self._shutdown.ensure_alive()":
            gen = F["hm"]["ensure_alive"]
            inner = compile_block(s.body, name, cx)
            return splice_yield(compile_gen(gen.body, cx), inner)
        raise Unsupported("with `%s` in %s" % (ce[:60], name))
    if isinstance(s, ast.If):
        c = compile_cond(s.test, name, cx)
        if name == EXEC and U(s.test) == "self._shutdown()":
            raise Unsupported("unreachable")
        return [("SIf", c, compile_block(s.body, name, cx, may_be_empty=True), compile_block(s.orelse, name, cx, may_be_empty=True))]
    if isinstance(s, ast.While):
        if s.orelse:
            raise Unsupported("while-else")
        return [("SWhile", compile_cond(s.test, name, cx), compile_block(s.body, name, cx))]
    if isinstance(s, ast.Break):
        return [("SBreak",)]
    if isinstance(s, ast.Try):
        if s.orelse or s.finalbody or len(s.handlers) != 1 or U(s.handlers[0].type) != "Exception" or s.handlers[0].name is not None:
            raise Unsupported("try shape: " + text.split("\n")[0][:60])
        return [("STry", compile_block(s.body, name, cx), compile_block(s.handlers[0].body, name, cx, may_be_empty=True))]
    if isinstance(s, ast.For):
        if s.orelse:
            raise Unsupported("for-else")
        if name == ITER and U(s.target) == "job" and U(s.iter) == "to_submit":
            return [("SForAdmitted", compile_block(s.body, name, cx))]
        if name == EXEC and U(s.target) == "job" and U(s.iter) == "self._to_submit" and len(s.body) == 1 \
                and isinstance(s.body[0], ast.If) and U(s.body[0].test) == "job.future is future" and not s.body[0].orelse:
            body = compile_block(s.body[0].body, name, cx)
            if not body or body[-1][0] != "SReturn":
                raise Unsupported("the scan of _do_cancel must leave the loop by `return` after the removal")
            return [("SForScan", body)]
        raise Unsupported("for-loop shape: " + text.split("\n")[0][:70])
    if isinstance(s, ast.Raise):
        e = s.exc
        if s.cause is None and isinstance(e, ast.Call) and isinstance(e.func, ast.Name) and e.func.id == "RuntimeError" \
                and all(isinstance(a, ast.Constant) for a in e.args) and not e.keywords:
            return [("SRaise",)]
        raise Unsupported("raise shape: " + text[:60])
    if isinstance(s, ast.Return):
        return compile_return(s, name, cx)
    if isinstance(s, ast.Assert):
        raise Unsupported("assert outside the whitelist: " + text[:60])
    return compile_leaf(text, name, cx)


def compile_return(s, name, cx):
    F = cx.f
    v = s.value
    if v is None or (isinstance(v, ast.Constant) and v.value is None):
        return [("SReturn", "ENone")]
    if isinstance(v, ast.Constant) and v.value in (True, False):
        return [("SReturn", "(EBool %s)" % ("true" if v.value else "false"))]
    text = U(v)
    if name == EXEC and text == "out":
        return [("SReturn", "EOut")]
    if name == EXEC and text == "self._last_throttle":
        return [("SReturn", "EThrottle")]
    if name == FUT and text == "self._delegate.cancel()":
        return [("SDelegateCancel", inline_done(cx)), ("SReturn", "ELast")]
    if name == FUT and text == "executor and executor._do_cancel(self)":
        return [("SIf", atom("ASavedExecutor"), [inline("ThrottleExecutor._do_cancel", F["em"]["_do_cancel"], EXEC, cx), ("SReturn", "ELast")],
                 [("SReturn", "ENone")])]
    if name == ITER and text == N("(executor._event, 30.0 if executor._running_count.value else 2.0)").strip():
        # kernel loop_wait (Gen/ThrottleGen.v) is generated from this very expression; the read is visible
        return [("SReadRc", "RWait"), ("SReturn", "EEventWait")]
    raise Unsupported("return value `%s` in %s" % (text[:70], name))


def inline_done(cx):
    """the body of _delegate_future_done, the callback bound by partial(self._delegate_future_done, self._log, self._running_count, self._event)"""
    return ("REF", "delegate_future_done_m",
            inline("ThrottleExecutor._delegate_future_done", cx.f["em"]["_delegate_future_done"], "_delegate_future_done", cx)[3])


PARTIAL_DONE = N("delegate_future.add_done_callback(partial(self._delegate_future_done, self._log, self._running_count, self._event))").strip()

SILENT = {
    (FUT, "self._executor = executor"),
    (FUT, N("super(ThrottleFuture, self).__init__(delegate=None, map_fn=lambda x: x)").strip()),   # MapFuture.__init__ on an unpublished object, no delegate
    (FUT, "self.add_done_callback(self._clear_executor)"),                                         # _Future.add_done_callback on an unpublished, pending object
    (FUT, "executor = self._executor"),
    ("_clear_executor", "future._executor = None"),
    (EXEC, "job = ThrottleJob(out, fn, args, kwargs)"),
    (LOOP, "event, wait_time = result"),
}

LEAVES = {
    (HELPER, "self.is_shutdown = True"): "SSetGateFlag",
    (ATOMIC, "self.value += 1"): "SValAdd 1%Z",
    (ATOMIC, "self.value -= 1"): "SValAdd (-1)%Z",
    (EXEC, "self._last_throttle = self._throttle()"): "SCount",
    (EXEC, "self._to_submit.append(job)"): "SAppend",
    (EXEC, "self._to_submit.remove(job)"): "SRemove",
    (EXEC, "self._event.set()"): "SEvSet",
    (EXEC, "self._event.wait(30.0)"): "SEvWait30",
    (EXEC, "self._delegate.shutdown(wait, **_kwargs)"): "SDShutdown",
    (EXEC, "self._thread.join(MAX_TIMEOUT)"): "SJoin",
    (EXEC, "delegate_future = self._delegate.submit(job.fn, *job.args, **job.kwargs)"): "SDSubmit",
    (EXEC, "job.future._set_delegate(delegate_future)"): "SSetDelegate",
    ("_delegate_future_done", "event.set()"): "SEvSet",
    (ITER, "job = executor._to_submit.popleft()"): "SPopleft",
    (ITER, "to_submit = []"): "SLocalInit",
    (ITER, "to_submit.append(job)"): "SLocalAppend",
    (ITER, "executor._event.clear()"): "SEvClear",
    (ITER, "executor._event.set()"): "SEvSet",
    (LOOP, "event.wait(wait_time)"): "SEvWaitTau",
    (LOOP, "event.clear()"): "SEvClear",
    (LOOP, "event.set()"): "SEvSet",
}


def compile_leaf(text, name, cx):
    F = cx.f
    key = (name, text)
    if key in SILENT:
        cx.silent.append("%s: %s" % (name, text))
        return [("SSilent", text)]
    if key in LEAVES:
        return [(LEAVES[key],)]
    em, am = F["em"], F["am"]
    if key == (EXEC, "self._block_until_ready(self._eval_throttle())"):
        return [inline("ThrottleExecutor._eval_throttle", em["_eval_throttle"], EXEC, cx),
                inline("ThrottleExecutor._block_until_ready", em["_block_until_ready"], EXEC, cx)]
    if key == (EXEC, "out = ThrottleFuture(self)"):
        return [inline("ThrottleFuture.__init__", F["fm"]["__init__"], FUT, cx)]
    if key == (EXEC, PARTIAL_DONE):
        return [("SAddCbDone", inline_done(cx))]
    if key == ("_delegate_future_done", "running_count.decr()"):
        return [inline("AtomicInt.decr", am["decr"], ATOMIC, cx)]
    if key == (ITER, "executor._running_count.incr()"):
        return [inline("AtomicInt.incr", am["incr"], ATOMIC, cx)]
    if key == (ITER, "throttle = executor._eval_throttle()"):
        return [inline("ThrottleExecutor._eval_throttle", em["_eval_throttle"], EXEC, cx)]
    if key == (ITER, "executor._do_submit(job)"):
        return [inline("ThrottleExecutor._do_submit", em["_do_submit"], EXEC, cx)]
    if key == (LOOP, "result = _submit_loop_iter(executor_ref())"):
        return [inline("_submit_loop_iter", F["it"], ITER, cx)]
    raise Unsupported("statement `%s` in %s" % (text.split("\n")[0][:80], name))


def compile_block(stmts, name, cx, top=False, may_be_empty=False):
    stmts = list(stmts)
    if top and stmts and is_doc(stmts[0]):
        stmts = stmts[1:]
    out = []
    for s in stmts:
        if name == EXEC and isinstance(s, ast.If) and U(s.test) == "self._shutdown()":
            # the test-and-set ShutdownHelper.__call__ inlined in front of the test
            out.append(inline("ShutdownHelper.__call__", cx.f["hm"]["__call__"], HELPER, cx))
            out.append(("SIf", ("CRet",), compile_block(s.body, name, cx, may_be_empty=True), compile_block(s.orelse, name, cx, may_be_empty=True)))
            continue
        out.extend(compile_stmt(s, name, cx))
    return out


def compile_gen(stmts, cx):
    """ShutdownHelper.ensure_alive: with-blocks / if / raise / the single `yield` (marker)"""
    out = []
    stmts = [s for s in stmts if not is_doc(s)]
    for i, s in enumerate(stmts):
        if isinstance(s, ast.Expr) and isinstance(s.value, ast.Yield):
            if s.value.value is not None or i != len(stmts) - 1:
                raise Unsupported("yield with a value / code after `yield` in the @contextmanager")
            out.append(("YIELD",))
        elif isinstance(s, ast.With) and S.contains_yield(s):
            ce = U(s.items[0].context_expr)
            if len(s.items) != 1 or s.items[0].optional_vars is not None or (HELPER, ce) not in LOCKS or i != len(stmts) - 1:
                raise Unsupported("@contextmanager shape")
            out.append(("SWith", LOCKS[(HELPER, ce)], compile_gen(s.body, cx)))
        elif S.contains_yield(s):
            raise Unsupported("the yield of the @contextmanager is not on a path of with-blocks only")
        else:
            out.extend(compile_stmt(s, HELPER, cx))
    return out


def splice_yield(prog, inner):
    out = []
    for s in prog:
        if s[0] == "YIELD":
            out.extend(inner)
        elif s[0] == "SWith":
            out.append(("SWith", s[1], splice_yield(s[2], inner)))
        else:
            out.append(s)
    return out


# ------------------------------------------------------------------------------------------------
# printing
# ------------------------------------------------------------------------------------------------
def pp_cond(c):
    k = c[0]
    if k == "CAtom":
        return "(CAtom %s)" % c[1]
    if k in ("CRet", "CTrue"):
        return k
    if k == "CNot":
        return "(CNot %s)" % pp_cond(c[1])
    if k == "CReadRc":
        return "(CReadRc %s %s)" % (c[1], pp_cond(c[2]))
    return "(%s %s %s)" % (k, pp_cond(c[1]), pp_cond(c[2]))


def q(text):
    return '"' + text.replace('"', "'") + '"'


def pp_list(items, ind):
    if not items:
        return "[]"
    pad = " " * ind
    return "[ " + (";\n" + pad + "  ").join(pp_stmt(s, ind + 2) for s in items) + " ]"


def pp_stmt(s, ind):
    k = s[0]
    pad = " " * (ind + 2)
    if k == "SWith":
        return "SWith %s\n%s%s" % (s[1], pad, pp_list(s[2], ind + 2))
    if k == "SIf":
        return "SIf %s\n%s%s\n%s%s" % (pp_cond(s[1]), pad, pp_list(s[2], ind + 2), pad, pp_list(s[3], ind + 2))
    if k == "SWhile":
        return "SWhile %s\n%s%s" % (pp_cond(s[1]), pad, pp_list(s[2], ind + 2))
    if k == "STry":
        return "STry\n%s%s\n%s%s" % (pad, pp_list(s[1], ind + 2), pad, pp_list(s[2], ind + 2))
    if k == "SCall":
        return "SCall %s\n%s%s" % (q(s[1]), pad, pp_list(s[2], ind + 2))
    if k == "SCallRef":
        return "SCall %s %s" % (q(s[1]), s[2])
    if k in ("SAddCbDone", "SDelegateCancel"):
        return "%s %s" % (k, s[1][1])
    if k in ("SForAdmitted", "SForScan"):
        return "%s\n%s%s" % (k, pad, pp_list(s[1], ind + 2))
    if k == "SReturn":
        return "SReturn %s" % s[1]
    if k == "SReadRc":
        return "SReadRc %s" % s[1]
    if k == "SSilent":
        return "SSilent %s" % q(s[1])
    return k


ENTRIES = [
    ("incr_m", "AtomicInt.incr", "am", "incr", ATOMIC),
    ("decr_m", "AtomicInt.decr", "am", "decr", ATOMIC),
    ("eval_throttle_m", "ThrottleExecutor._eval_throttle", "em", "_eval_throttle", EXEC),
    ("block_until_ready_m", "ThrottleExecutor._block_until_ready", "em", "_block_until_ready", EXEC),
    ("future_init_m", "ThrottleFuture.__init__", "fm", "__init__", FUT),
    ("delegate_future_done_m", "ThrottleExecutor._delegate_future_done", "em", "_delegate_future_done", "_delegate_future_done"),
    ("do_submit_m", "ThrottleExecutor._do_submit", "em", "_do_submit", EXEC),
    ("do_cancel_m", "ThrottleExecutor._do_cancel", "em", "_do_cancel", EXEC),
    ("submit_m", "ThrottleExecutor.submit", "em", "submit", EXEC),
    ("shutdown_m", "ThrottleExecutor.shutdown", "em", "shutdown", EXEC),
    ("submit_loop_iter_m", "_submit_loop_iter", None, "it", ITER),
    ("submit_loop_m", "_submit_loop", None, "lp", LOOP),
    ("me_cancel_m", "ThrottleFuture._me_cancel", "fm", "_me_cancel", FUT),
    ("clear_executor_m", "ThrottleFuture._clear_executor", "fm", "_clear_executor", "_clear_executor"),
]


COQNAME = dict((label, coqname) for coqname, label, _t, _k, _n in ENTRIES)


def generate_text():
    tree, helper_tree = parse("throttle.py"), parse("helpers.py")
    facts = check_facts(tree, helper_tree)
    dropped, silent = [], []
    progs = []
    for coqname, label, tbl, key, name in ENTRIES:
        fn = facts[tbl][key] if tbl else facts[key]
        cx = Cx(facts, dropped, silent)
        progs.append((coqname, label, fn.lineno, compile_block(fn.body, name, cx, top=True)))

    def uniq(l):
        seen, out = set(), []
        for x in l:
            if x not in seen:
                seen.add(x)
                out.append(x)
        return out
    out = ["(* GENERATED by tools/throttle2coq.py from more_executors/_impl/throttle.py (AtomicInt, ThrottleExecutor, ThrottleFuture,",
           "   _submit_loop_iter, _submit_loop) and more_executors/_impl/helpers.py (ShutdownHelper.__call__, ensure_alive; executor_loop",
           "   checked to be the known transparent wrapper) -- do not edit.  Regenerated on every check run.",
           "   Dropped by the logging / metrics whitelist:"]
    for d in uniq(dropped):
        out.append("     " + d.replace("(*", "( *").replace("*)", "* )"))
    out.append("   Silent statements (kept as SSilent; the machine folds them into the neighbouring event):")
    for d in uniq(silent):
        out.append("     " + d.replace("(*", "( *").replace("*)", "* )"))
    out += ["*)",
            "From Coq Require Import List ZArith String.",
            "Import ListNotations.",
            "From ME Require Import Model.Throttle Model.ThrottleIR.",
            "Local Open Scope string_scope.",
            ""]
    for coqname, label, line, prog in progs:
        out += ["(* %s   throttle.py:%d *)" % (label, line),
                "Definition %s : list stmt :=" % coqname,
                "  " + pp_list(prog, 2) + ".",
                ""]
    return "\n".join(out)


def generate(name=NAME):
    """entry point for tools/pyk2coq.py (raises Unsupported)"""
    try:
        text = generate_text()
    except Unsupported:
        raise
    except (SyntaxError, IndexError, AttributeError, KeyError, ValueError, TypeError, OSError) as e:
        raise Unsupported("%s: %s" % (type(e).__name__, e))
    S.emit(name, text)


def main():
    try:
        generate()
        print("generated coq/Gen/%s" % NAME)
        sys.exit(0)
    except Unsupported as e:
        msg = "TRANSLATOR-FAIL-CLOSED: %s" % e
        for ext in (".vo", ".vok", ".vos", ".glob"):
            p = os.path.join(S.OUT, NAME[:-2] + ext)
            if os.path.exists(p):
                os.remove(p)
        S.emit(NAME, "(* %s *)\nDefinition translator_failed_closed : True := 0.\n" % msg.replace("*)", "* )").replace("(*", "( *")[:400])
        print("%s: %s" % (NAME, msg))
        sys.exit(2)


if __name__ == "__main__":
    main()
