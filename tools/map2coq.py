#!/usr/bin/env python3
"""Fail-closed translator: the METHODS of the library's Future protocol
  common.py   _Future.__init__ / _me_invoke_callbacks / add_done_callback / cancel,
              copy_future_exception, copy_exception, try_set_result
  map.py      MapFuture.__init__ / _set_delegate / _delegate_failed / _delegate_resolved / _on_mapped /
              set_result / set_exception / set_exception_info / running / _me_cancel
  flat_map.py FlatMapFuture.__init__ / _on_mapped
-> terms of the IR of coq/Model/MapIR.v, emitted as Gallina in coq/Gen/MapSkel.v (one term per method + the method
table with the two virtual calls resolved per class).

Shape handled (generic): `with self._me_lock:`, if / elif / else over a small condition vocabulary (a call inside a
condition is hoisted in front of the test), try / except <class> [as name] (no else / finally), return [value],
`raise TypeError(<formatting of reprs>)`, `for x in self._me_done_callbacks:`, assignments to locals and to a table
of attributes of self, short-circuit `a and (b or c)` in a returned value.  Every CALL must be in one of two tables
keyed by its Python text: OPS (one operation of a stdlib Future / of user code: the leaves of the IR) or CALLS (a
call of another translated method).  Dropped, explicitly and listed in the generated file: LOG.exception / LOG.debug
with call-free arguments, `assert` with a call-free test, `pass`, the docstring, a local import that binds a name of
the expression vocabulary, and the Python-2 branch of `if 'exception_info' in dir(f1)` (the test is evaluated on the
interpreter's stdlib Future at translation time).  Anything else: TRANSLATOR-FAIL-CLOSED, exit 2.

Usage: python3 tools/map2coq.py      (VERIF_REPO=<dir> to read another checkout; default /repo)
Registered in tools/pyk2coq.py's KERNELS list: `bin/check` regenerates Gen/MapSkel.v on every run.
"""
import ast, os, sys
import concurrent.futures

REPO = os.environ.get("VERIF_REPO", "/repo")
SRC = os.path.join(REPO, "more_executors", "_impl")
OUT = os.path.join(os.path.dirname(os.path.dirname(os.path.abspath(__file__))), "coq", "Gen")
NAME = "MapSkel.v"


class Unsupported(Exception):
    pass


def U(node):
    return ast.unparse(node)


def N(text):
    return ast.unparse(ast.parse(text))


def NE(text):
    return ast.unparse(ast.parse(text, mode="eval"))


def parse(rel):
    return ast.parse(open(os.path.join(SRC, rel)).read())


def is_doc(s):
    return isinstance(s, ast.Expr) and isinstance(s.value, ast.Constant) and isinstance(s.value.value, str)


def find_class(tree, cls):
    for n in tree.body:
        if isinstance(n, ast.ClassDef) and n.name == cls:
            return n
    raise Unsupported("class %s not found" % cls)


def find_func(tree, name):
    for n in tree.body:
        if isinstance(n, ast.FunctionDef) and n.name == name:
            return n
    raise Unsupported("function %s not found" % name)


def methods(cls):
    return dict((m.name, m) for m in cls.body if isinstance(m, (ast.FunctionDef, ast.AsyncFunctionDef)))


def imported_from(tree, module, name, level=None):
    for n in tree.body:
        if isinstance(n, ast.ImportFrom) and n.module == module and (level is None or n.level == level) \
                and any(a.name == name and a.asname is None for a in n.names):
            return True
    return False


# ------------------------------------------------------------------------------------------------
# facts the vocabulary rests on (checked, not assumed)
# ------------------------------------------------------------------------------------------------
FUT, MAPF, FLATF = "_Future", "MapFuture", "FlatMapFuture"
EXPECTED_METHODS = {
    FUT: ["__init__", "_me_cancel", "_me_invoke_callbacks", "add_done_callback", "cancel"],
    MAPF: ["__init__", "_delegate_failed", "_delegate_resolved", "_me_cancel", "_on_mapped", "_set_delegate", "running",
           "set_exception", "set_exception_info", "set_result"],
    FLATF: ["__init__", "_on_mapped"],
}
HELPERS = ["copy_future_exception", "copy_exception", "try_set_result"]
PROTECTED = ("RLock", "Future", "_Future", "MapFuture", "FlatMapFuture", "InvalidStateError", "LOG", "identity",
             "copy_exception", "copy_future_exception", "try_set_result", "sys")


def no_rebinding(tree, what):
    for n in tree.body:
        if isinstance(n, (ast.Assign, ast.AugAssign, ast.AnnAssign)):
            for t in ast.walk(n):
                if isinstance(t, ast.Name) and isinstance(t.ctx, ast.Store) and t.id in PROTECTED \
                        and not (t.id == "LOG" and what == "common.py"):
                    raise Unsupported("%s: module-level rebinding of %s" % (what, t.id))
        if isinstance(n, (ast.FunctionDef, ast.ClassDef)) and n.name in ("RLock", "Future", "sys", "LOG"):
            raise Unsupported("%s: module-level definition of %s" % (what, n.name))


def check_class(cls, bases, expected):
    if [U(b) for b in cls.bases] != bases or cls.keywords or cls.decorator_list:
        raise Unsupported("class %s: bases %s (expected %s)" % (cls.name, [U(b) for b in cls.bases], bases))
    if sorted(methods(cls)) != expected:
        raise Unsupported("class %s has methods %s (expected %s): the dispatch table would change" % (cls.name, sorted(methods(cls)), expected))
    for s in cls.body:
        if isinstance(s, ast.FunctionDef):
            if s.decorator_list:
                raise Unsupported("%s.%s is decorated" % (cls.name, s.name))
        elif not (is_doc(s) or isinstance(s, ast.Pass)):
            raise Unsupported("class %s: class-level statement %s" % (cls.name, U(s)[:60]))


def check_facts(common, mapm, flat):
    fut, mapf, flatf = find_class(common, FUT), find_class(mapm, MAPF), find_class(flat, FLATF)
    check_class(fut, ["Future"], EXPECTED_METHODS[FUT])
    check_class(mapf, ["_Future"], EXPECTED_METHODS[MAPF])
    check_class(flatf, ["MapFuture"], EXPECTED_METHODS[FLATF])
    if not imported_from(common, "concurrent.futures", "Future", 0):
        raise Unsupported("Future is not concurrent.futures.Future")
    if not imported_from(common, "threading", "RLock", 0):
        raise Unsupported("RLock is not threading.RLock")
    if not any(isinstance(n, ast.Import) and any(a.name == "sys" and a.asname is None for a in n.names) for n in common.body):
        raise Unsupported("sys is not the sys module")
    # InvalidStateError: `try: from concurrent.futures import InvalidStateError except ImportError: class ...(RuntimeError)`
    ok = False
    for n in common.body:
        if isinstance(n, ast.Try) and len(n.body) == 1 and U(n.body[0]) == N("from concurrent.futures import InvalidStateError") \
                and len(n.handlers) == 1 and U(n.handlers[0].type) == "ImportError" and not n.orelse and not n.finalbody:
            ok = True
    if not ok or not hasattr(concurrent.futures, "InvalidStateError"):
        raise Unsupported("InvalidStateError is not concurrent.futures.InvalidStateError")
    if not issubclass(concurrent.futures.InvalidStateError, Exception):
        raise Unsupported("InvalidStateError is not an Exception")
    logs = [n for n in common.body if isinstance(n, ast.Assign) and U(n.targets[0]) == "LOG"]
    if len(logs) != 1 or not U(logs[0].value).startswith("LogWrapper(logging.getLogger("):
        raise Unsupported("LOG is not a LogWrapper around a logger")
    for name in ("_Future", "copy_exception", "copy_future_exception", "try_set_result"):
        if not imported_from(mapm, "common", name, 1):
            raise Unsupported("map.py: %s is not .common.%s" % (name, name))
    if not imported_from(flat, "map", "MapFuture", 1):
        raise Unsupported("flat_map.py: MapFuture is not .map.MapFuture")
    ident = find_func(mapm, "identity")
    if U(ident.args) != "x" or [U(s) for s in ident.body] != ["return x"] or ident.decorator_list:
        raise Unsupported("map.identity is not the identity")
    for tree, what in ((common, "common.py"), (mapm, "map.py"), (flat, "flat_map.py")):
        no_rebinding(tree, what)
    # the abstract hook of _Future: overridden by MapFuture (every translated class derives from MapFuture)
    mc = methods(fut)["_me_cancel"]
    if not (len(mc.body) == 1 and isinstance(mc.body[0], ast.Raise) and U(mc.body[0].exc).startswith("NotImplementedError(")):
        raise Unsupported("_Future._me_cancel is not the abstract hook")
    # facts about the interpreter's stdlib Future (Python 3): no exception_info / set_exception_info
    if "exception_info" in dir(concurrent.futures.Future) or hasattr(concurrent.futures.Future, "set_exception_info"):
        raise Unsupported("the stdlib Future has exception_info / set_exception_info")
    return fut, mapf, flatf


# ------------------------------------------------------------------------------------------------
# vocabulary
# ------------------------------------------------------------------------------------------------
ATTRS = {"self._delegate": "A_delegate", "self._error_fn": "A_error_fn", "self._map_fn": "A_map_fn",
         "self.__flattened": "A_flattened", "self._me_done_callbacks": "A_callbacks", "self._me_lock": "A_lock"}
# attribute -> classes that may write it
ATTR_WRITERS = {"A_delegate": (MAPF,), "A_error_fn": (MAPF, FLATF), "A_map_fn": (MAPF, FLATF), "A_flattened": (FLATF,),
                "A_callbacks": (FUT,), "A_lock": (FUT,)}
XCLASSES = {"Exception": "XCException", "AttributeError": "XCAttributeError", "InvalidStateError": "XCInvalidStateError"}
DELEGATE_NAMES = ("delegate", "f1")          # parameters that denote a stdlib (environment) future
RECEIVER = {"try_set_result": 0, "copy_exception": 0, "copy_future_exception": 1}   # parameter that denotes the library future


class M(object):
    """a method being translated"""

    def __init__(self, owner, name, fn, mname):
        self.owner, self.name, self.fn, self.mname = owner, name, fn, mname
        a = fn.args
        if a.vararg or a.kwarg or a.kwonlyargs or a.posonlyargs:
            raise Unsupported("%s.%s: signature %s" % (owner, name, U(a)))
        for d in a.defaults:
            if not (isinstance(d, ast.Constant) and d.value is None):
                raise Unsupported("%s.%s: default %s (only None)" % (owner, name, U(d)))
        names = [x.arg for x in a.args]
        if owner in (FUT, MAPF, FLATF):
            if not names or names[0] != "self":
                raise Unsupported("%s.%s: first parameter is not self" % (owner, name))
            names = names[1:]
        elif "self" in names:
            raise Unsupported("%s: a parameter called self" % name)
        self.params = names
        self.ndefaults = len(a.defaults)
        self.locals = set(names)
        self.ntmp = 0
        self.exc_info_bound = False
        self.loopvar = None
        self.recv = names[RECEIVER[name]] if owner is None else None
        for n in ast.walk(fn):
            if n is not fn and isinstance(n, (ast.While, ast.AsyncWith, ast.AsyncFor, ast.Await, ast.Global, ast.Nonlocal, ast.FunctionDef,
                                              ast.ClassDef, ast.Delete, ast.NamedExpr, ast.Yield, ast.YieldFrom, ast.AugAssign, ast.AnnAssign,
                                              ast.ListComp, ast.SetComp, ast.DictComp, ast.GeneratorExp, ast.Starred, ast.IfExp)):
                raise Unsupported("%s.%s: construct %s outside the subset" % (owner, name, type(n).__name__))

    def tmp(self):
        self.ntmp += 1
        return "%%t%d" % self.ntmp

    def where(self):
        return "%s.%s" % (self.owner, self.name) if self.owner else self.name


class T(object):
    def __init__(self):
        self.dropped = []
        self.callsites = []           # (helper, caller M, arg texts)

    # ---- pure expressions ---------------------------------------------------------------------
    def pure(self, e, m):
        """-> Gallina expr, or None if e is not a pure expression of the vocabulary"""
        if isinstance(e, ast.Constant):
            if e.value is None:
                return "ENone"
            if e.value is True:
                return "(EBool true)"
            if e.value is False:
                return "(EBool false)"
            return None
        text = U(e)
        if isinstance(e, ast.Name):
            if e.id == "self" and m.owner:
                return "ESelf"
            if e.id in m.locals:
                return '(EVar "%s")' % e.id
            if e.id == "identity" and m.owner == MAPF:
                return "EIdentity"
            if e.id == "f_return" and m.owner == FLATF and getattr(m, "f_return_bound", False):
                return "EFReturn"
            return None
        if text in ATTRS and m.owner:
            return "(EAttr %s)" % ATTRS[text]
        if text == NE("lambda x: x"):
            return "EIdentity"
        if text == "[]":
            return "EEmptyList"
        if text == "RLock()" and m.owner == FUT:
            return "ENewRLock"
        if m.exc_info_bound and text == "exc_info[1]":
            return "ECurExc"
        if m.exc_info_bound and text == "exc_info[2]":
            return "ECurTb"
        if isinstance(e, ast.BoolOp) and isinstance(e.op, ast.Or) and len(e.values) == 2:
            a, b = self.pure(e.values[0], m), self.pure(e.values[1], m)
            if a and b:
                return "(EOr %s %s)" % (a, b)
        return None

    # ---- operations (leaves) ------------------------------------------------------------------
    def op(self, e, m):
        """-> (vop, [arg exprs]) or None"""
        if not isinstance(e, ast.Call) or e.keywords:
            return None
        text = U(e)
        w = (m.owner, m.name)

        def ghost_delegate():
            if "delegate" not in m.params:
                raise Unsupported("%s: `%s` outside a method with a `delegate` parameter" % (m.where(), text))
            return '(EVar "delegate")'
        if m.owner and text == "self.cancelled()":
            return "VSelfCancelled", []
        if m.owner and text == "self.done()":
            if w == (FUT, "cancel"):
                return "(VSelfDone AtCancel)", []
            if w == (FUT, "add_done_callback"):
                return "(VSelfDone AtAddCb)", ['(EVar "%s")' % m.params[0]]
            if w == (MAPF, "_delegate_resolved") and "result" in m.locals:
                return "(VSelfDone AtResolved)", ['(EVar "result")']
            if w == (MAPF, "running"):
                return "(VSelfDone AtRunning)", []
            return None
        if w == (FUT, "cancel") and text == "super(_Future, self).cancel()":
            return "VSuperCancel", []
        if w == (FUT, "cancel") and text == "self.set_running_or_notify_cancel()":
            return "VSrnc", []
        if w == (FUT, "__init__") and text == "super(_Future, self).__init__()":
            return "VSuperInit", []
        if w == (MAPF, "set_result") and text == "super(MapFuture, self).set_result(%s)" % m.params[0]:
            return "VSuperSetResult", ['(EVar "%s")' % m.params[0]]
        if w == (MAPF, "set_exception") and text == "super(MapFuture, self).set_exception(%s)" % m.params[0]:
            return "VSuperSetException", ['(EVar "%s")' % m.params[0]]
        if w == (MAPF, "set_exception_info") and text == "super(MapFuture, self).set_exception_info(%s, %s)" % tuple(m.params[:2]):
            return "VSuperSetExceptionInfo", ['(EVar "%s")' % p for p in m.params[:2]]
        if m.owner in (MAPF,) and text == "self._delegate.cancel()":
            return "VDelCancel", ["(EAttr A_delegate)"]
        if m.owner in (MAPF,) and text == "self._delegate.add_done_callback(self._delegate_resolved)":
            return "VDelAddCb", ["(EAttr A_delegate)"]
        if m.owner in (MAPF,) and text == "self._delegate.running()":
            return "VDelRunning", ["(EAttr A_delegate)"]
        if m.owner in (MAPF,) and text == "self._delegate.done()":
            return "VDelDone", ["(EAttr A_delegate)"]
        f = e.func
        if isinstance(f, ast.Attribute) and isinstance(f.value, ast.Name) and f.value.id in DELEGATE_NAMES and f.value.id in m.params \
                and not e.args:
            v = {"cancelled": "VDelCancelled", "exception": "VDelException", "result": "VDelResult"}.get(f.attr)
            if v:
                return v, ['(EVar "%s")' % f.value.id]
            return None
        if m.owner == MAPF and U(f) == "self._map_fn" and len(e.args) == 1:
            a = self.pure(e.args[0], m)
            if a:
                return "VMapFn", [a, ghost_delegate()]
        if m.owner == MAPF and U(f) == "self._error_fn" and len(e.args) == 1:
            a = self.pure(e.args[0], m)
            if a:
                return "VErrFn", [a, ghost_delegate()]
        if w == (FUT, "add_done_callback") and text == "%s(self)" % m.params[0]:
            return "(VCallback true)", ['(EVar "%s")' % m.params[0], "ESelf"]
        if w == (FUT, "_me_invoke_callbacks") and m.loopvar and text == "%s(self)" % m.loopvar:
            return "(VCallback false)", ['(EVar "%s")' % m.loopvar, "ESelf"]
        return None

    # ---- calls of translated methods ----------------------------------------------------------
    def call(self, e, m):
        """-> (mname, [arg exprs]) or None"""
        if not isinstance(e, ast.Call) or e.keywords:
            return None
        text, f = U(e), U(e.func)
        args = [self.pure(a, m) for a in e.args]
        if any(a is None for a in args):
            return None
        n = len(args)
        table = {
            (MAPF, "__init__", "super(MapFuture, self).__init__", 0): "M_future_init",
            (FLATF, "__init__", "super(FlatMapFuture, self).__init__", 3): "M_map_init",
            (FLATF, "_on_mapped", "super(FlatMapFuture, self)._on_mapped", 1): "M_map_on_mapped",
        }
        if (m.owner, m.name, f, n) in table:
            return table[(m.owner, m.name, f, n)], args
        if m.owner:
            virt = {("self._set_delegate", 1): ("M_set_delegate", (MAPF, FLATF)), ("self._me_invoke_callbacks", 0): ("M_invoke_callbacks", (FUT, MAPF, FLATF)),
                    ("self._me_cancel", 0): ("M_me_cancel", (FUT,)), ("self._delegate_failed", 1): ("M_delegate_failed", (MAPF,)),
                    ("self._on_mapped", 1): ("M_on_mapped", (MAPF,))}
            if (f, n) in virt and m.owner in virt[(f, n)][1]:
                return virt[(f, n)][0], args
        if isinstance(e.func, ast.Name) and e.func.id in HELPERS and (m.owner in (MAPF,) or m.owner is None):
            h = e.func.id
            nparams = {"try_set_result": 2, "copy_exception": 3, "copy_future_exception": 2}[h]
            nreq = {"try_set_result": 2, "copy_exception": 1, "copy_future_exception": 2}[h]
            if not (nreq <= n <= nparams):
                return None
            self.callsites.append((h, m, [U(a) for a in e.args]))
            return "M_" + h, args + ["ENone"] * (nparams - n)
        if m.owner is None and m.recv and isinstance(e.func, ast.Attribute) and U(e.func.value) == m.recv:
            meth = {("set_result", 1): "M_set_result", ("set_exception", 1): "M_set_exception", ("set_exception_info", 2): "M_set_exception_info"}
            if (e.func.attr, n) in meth:
                return meth[(e.func.attr, n)], args
        return None

    # ---- values (pure | op | call | short-circuit) ------------------------------------------------
    def value(self, e, m):
        """-> (prelude statements, expr)"""
        p = self.pure(e, m)
        if p:
            return [], p
        o = self.op(e, m)
        if o:
            t = m.tmp()
            return [("SOp", 'Some "%s"' % t, o[0], o[1])], '(EVar "%s")' % t
        c = self.call(e, m)
        if c:
            t = m.tmp()
            return [("SCall", 'Some "%s"' % t, c[0], c[1])], '(EVar "%s")' % t
        if isinstance(e, ast.BoolOp) and len(e.values) == 2:
            sa, ea = self.value(e.values[0], m)
            sb, eb = self.value(e.values[1], m)
            r = m.tmp()
            rest = sb + [("SAssign", r, eb)]
            test = "(CTruthy (EVar \"%s\"))" % r
            if isinstance(e.op, ast.And):
                return sa + [("SAssign", r, ea), ("SIf", test, rest, [])], '(EVar "%s")' % r
            return sa + [("SAssign", r, ea), ("SIf", test, [], rest)], '(EVar "%s")' % r
        raise Unsupported("%s: expression `%s` outside the vocabulary" % (m.where(), U(e)[:70]))

    def cond(self, e, m):
        """-> (prelude, cond)"""
        if isinstance(e, ast.UnaryOp) and isinstance(e.op, ast.Not):
            if U(e.operand) == NE("callable(getattr(result, 'add_done_callback', None))") and "result" in m.locals:
                return [], '(CNotFuture (EVar "result"))'
            pre, c = self.cond(e.operand, m)
            return pre, "(CNot %s)" % c
        if isinstance(e, ast.Compare) and len(e.ops) == 1:
            l, r = e.left, e.comparators[0]
            if isinstance(e.ops[0], (ast.Is, ast.IsNot)):
                a, b = self.pure(l, m), self.pure(r, m)
                if a and b:
                    c = "(CIsNone %s)" % a if b == "ENone" else "(CIs %s %s)" % (a, b)
                    return [], c if isinstance(e.ops[0], ast.Is) else "(CNot %s)" % c
            if isinstance(e.ops[0], ast.In) and U(e) == NE("'exception_info' in dir(f1)") and m.name == "copy_future_exception" and "f1" in m.params:
                # f1 is a stdlib future (call sites checked): decided on the interpreter's Future class (check_facts)
                return [], "(CConst false)"
            raise Unsupported("%s: comparison `%s`" % (m.where(), U(e)[:60]))
        if isinstance(e, (ast.BoolOp, ast.Compare)):
            raise Unsupported("%s: condition `%s`" % (m.where(), U(e)[:60]))
        pre, v = self.value(e, m)
        return pre, "(CTruthy %s)" % v

    # ---- dropped statements -----------------------------------------------------------------------
    def call_free(self, e):
        for n in ast.walk(e):
            if isinstance(n, (ast.Call, ast.Subscript, ast.Lambda, ast.Await, ast.NamedExpr)):
                return False
        return True

    def is_dropped(self, s, m):
        if isinstance(s, ast.Pass):
            return True
        if isinstance(s, ast.Assert):
            return self.call_free(s.test) and (s.msg is None or self.call_free(s.msg))
        if isinstance(s, ast.Expr) and isinstance(s.value, ast.Call) and U(s.value.func) in ("LOG.exception", "LOG.debug"):
            c = s.value
            return all(self.call_free(a) for a in c.args) and all(self.call_free(k.value) for k in c.keywords)
        return False

    # ---- statements ------------------------------------------------------------------------------
    def stmt(self, s, m):
        text = U(s)
        if is_doc(s):
            raise Unsupported("%s: string expression statement inside a body" % m.where())
        if self.is_dropped(s, m):
            if not isinstance(s, ast.Pass):
                self.dropped.append("%s: %s" % (m.where(), " ".join(text.split())))
            return []
        if isinstance(s, ast.ImportFrom):
            if (m.owner, m.name) == (FLATF, "__init__") and text == N("from ..futures import f_return"):
                m.f_return_bound = True
                self.dropped.append("%s: %s   (binds the name f_return = EFReturn of the vocabulary)" % (m.where(), text))
                return []
            raise Unsupported("%s: import `%s`" % (m.where(), text))
        if isinstance(s, ast.With):
            if len(s.items) != 1 or s.items[0].optional_vars is not None or U(s.items[0].context_expr) != "self._me_lock" or not m.owner:
                raise Unsupported("%s: with-statement `%s`" % (m.where(), text.split("\n")[0][:60]))
            return [("SWithM", self.block(s.body, m))]
        if isinstance(s, ast.If):
            if U(s.test) == NE("'exception_info' in dir(f1)"):
                pre, c = self.cond(s.test, m)
                self.dropped.append("%s: the body of `if 'exception_info' in dir(f1):` (Python 2 only; the stdlib Future of this interpreter has no exception_info): %s"
                                    % (m.where(), " ".join(U(s.body[0]).split())))
                saved = set(m.locals)
                for t in ast.walk(s):
                    if isinstance(t, ast.Name) and isinstance(t.ctx, ast.Store):
                        pass
                return pre + [("SIf", c, [], self.block(s.orelse, m))]
            pre, c = self.cond(s.test, m)
            return pre + [("SIf", c, self.block(s.body, m), self.block(s.orelse, m))]
        if isinstance(s, ast.Try):
            if s.orelse or s.finalbody or not s.handlers:
                raise Unsupported("%s: try with else / finally" % m.where())
            body = self.block(s.body, m)
            hs = []
            for h in s.handlers:
                if h.type is None or U(h.type) not in XCLASSES:
                    raise Unsupported("%s: except clause `%s`" % (m.where(), U(h.type) if h.type else "bare"))
                if h.name:
                    m.locals.add(h.name)
                hs.append((XCLASSES[U(h.type)], h.name, self.block(h.body, m)))
            return [("STry", body, hs)]
        if isinstance(s, ast.Return):
            if s.value is None:
                return [("SReturn", "ENone")]
            pre, v = self.value(s.value, m)
            return pre + [("SReturn", v)]
        if isinstance(s, ast.Raise):
            e = s.exc
            if s.cause is None and isinstance(e, ast.Call) and U(e.func) == "TypeError" and not e.keywords and len(e.args) == 1 \
                    and self.is_formatting(e.args[0]):
                return [("SRaise", "RTypeError")]
            raise Unsupported("%s: raise `%s`" % (m.where(), text.split("\n")[0][:60]))
        if isinstance(s, ast.For):
            if U(s.iter) == "self._me_done_callbacks" and isinstance(s.target, ast.Name) and not s.orelse and m.owner == FUT and m.loopvar is None:
                m.loopvar = s.target.id
                m.locals.add(s.target.id)
                body = self.block(s.body, m)
                m.loopvar = None
                return [("SForCbs", s.target.id, body)]
            raise Unsupported("%s: for-loop `%s`" % (m.where(), text.split("\n")[0][:60]))
        if isinstance(s, ast.Assign):
            if len(s.targets) != 1:
                raise Unsupported("%s: chained assignment" % m.where())
            t = s.targets[0]
            if isinstance(t, ast.Tuple) and isinstance(s.value, ast.Tuple) and len(t.elts) == len(s.value.elts) \
                    and all(isinstance(x, ast.Name) for x in t.elts):
                # evaluated left to right, then bound: no target may occur in a later source expression
                names = [x.id for x in t.elts]
                for v in s.value.elts:
                    if any(isinstance(n, ast.Name) and n.id in names for n in ast.walk(v)):
                        raise Unsupported("%s: tuple assignment reads its own targets" % m.where())
                out = []
                for x, v in zip(t.elts, s.value.elts):
                    out += self.assign_local(x.id, v, m)
                return out
            if isinstance(t, ast.Name):
                if t.id == "exc_info" and U(s.value) == "sys.exc_info()" and m.owner is None:
                    m.exc_info_bound = True
                    m.locals.discard("exc_info")
                    return []          # ECurExc / ECurTb read the handled exception directly
                if t.id in ("self", "exc_info"):
                    raise Unsupported("%s: assignment to %s" % (m.where(), t.id))
                return self.assign_local(t.id, s.value, m)
            if U(t) in ATTRS and m.owner:
                a = ATTRS[U(t)]
                if m.owner not in ATTR_WRITERS[a]:
                    raise Unsupported("%s: writes %s" % (m.where(), U(t)))
                v = self.pure(s.value, m)
                if v is None:
                    raise Unsupported("%s: `%s`: the value is not a pure expression of the vocabulary" % (m.where(), text[:60]))
                return [("SSetAttr", a, v)]
            raise Unsupported("%s: assignment target `%s`" % (m.where(), U(t)[:60]))
        if isinstance(s, ast.Expr):
            e = s.value
            if (m.owner, m.name) == (FUT, "add_done_callback") and m.params and U(e) == NE("self._me_done_callbacks.append(%s)" % m.params[0]):
                return [("SAppendCb", '(EVar "%s")' % m.params[0])]
            o = self.op(e, m)
            if o:
                return [("SOp", "None", o[0], o[1])]
            c = self.call(e, m)
            if c:
                return [("SCall", "None", c[0], c[1])]
        raise Unsupported("%s: statement `%s` outside the vocabulary" % (m.where(), text.split("\n")[0][:70]))

    def assign_local(self, x, v, m):
        if x == "self" or x == m.recv or x in DELEGATE_NAMES:
            raise Unsupported("%s: assignment to %s" % (m.where(), x))
        p = self.pure(v, m)
        if p:
            m.locals.add(x)
            return [("SAssign", x, p)]
        o = self.op(v, m)
        if o:
            m.locals.add(x)
            return [("SOp", 'Some "%s"' % x, o[0], o[1])]
        c = self.call(v, m)
        if c:
            m.locals.add(x)
            return [("SCall", 'Some "%s"' % x, c[0], c[1])]
        raise Unsupported("%s: `%s = %s`: the value is outside the vocabulary" % (m.where(), x, U(v)[:60]))

    def is_formatting(self, e):
        """a message built from string constants, %, tuples and repr(<name / attribute>)"""
        if isinstance(e, ast.Constant) and isinstance(e.value, str):
            return True
        if isinstance(e, ast.BinOp) and isinstance(e.op, (ast.Mod, ast.Add)):
            return self.is_formatting(e.left) and self.is_formatting(e.right)
        if isinstance(e, ast.Tuple):
            return all(self.is_formatting(x) for x in e.elts)
        if isinstance(e, ast.Call) and U(e.func) == "repr" and len(e.args) == 1 and not e.keywords:
            return self.call_free(e.args[0])
        return False

    def block(self, stmts, m, toplevel=False):
        stmts = list(stmts)
        if toplevel and stmts and is_doc(stmts[0]):
            stmts = stmts[1:]
        out = []
        for s in stmts:
            out.extend(self.stmt(s, m))
        return out

    def check_callsites(self):
        """the receiver parameter of the helpers is the library future itself, their delegate parameter a stdlib future"""
        for h, m, args in self.callsites:
            i = RECEIVER[h]
            ok = args[i] == "self" if m.owner else args[i] == m.recv
            if not ok:
                raise Unsupported("%s: %s called with receiver `%s`" % (m.where(), h, args[i]))
            if h == "copy_future_exception" and not (args[0] in DELEGATE_NAMES and args[0] in m.params):
                raise Unsupported("%s: copy_future_exception called on `%s`" % (m.where(), args[0]))


# ------------------------------------------------------------------------------------------------
# printing
# ------------------------------------------------------------------------------------------------
def pp_exprs(es):
    return "[" + "; ".join(es) + "]"


def pp_list(items, ind):
    if not items:
        return "[]"
    pad = " " * ind
    return "[ " + (";\n" + pad + "  ").join(pp_stmt(s, ind + 2) for s in items) + " ]"


def pp_stmt(s, ind):
    k = s[0]
    pad = " " * (ind + 2)
    if k == "SWithM":
        return "SWithM\n%s%s" % (pad, pp_list(s[1], ind + 2))
    if k == "SIf":
        return "SIf %s\n%s%s\n%s%s" % (s[1], pad, pp_list(s[2], ind + 2), pad, pp_list(s[3], ind + 2))
    if k == "STry":
        hs = []
        for (c, v, b) in s[2]:
            hs.append("(%s, %s,\n%s   %s)" % (c, 'Some "%s"' % v if v else "None", pad, pp_list(b, ind + 5)))
        return "STry\n%s%s\n%s[ %s ]" % (pad, pp_list(s[1], ind + 2), pad, (";\n" + pad + "  ").join(hs))
    if k == "SReturn":
        return "SReturn %s" % s[1]
    if k == "SRaise":
        return "SRaise %s" % s[1]
    if k == "SAssign":
        return 'SAssign "%s" %s' % (s[1], s[2])
    if k == "SSetAttr":
        return "SSetAttr %s %s" % (s[1], s[2])
    if k == "SOp":
        return "SOp (%s) %s %s" % (s[1], s[2], pp_exprs(s[3]))
    if k == "SCall":
        return "SCall (%s) %s %s" % (s[1], s[2], pp_exprs(s[3]))
    if k == "SForCbs":
        return 'SForCbs "%s"\n%s%s' % (s[1], pad, pp_list(s[2], ind + 2))
    if k == "SAppendCb":
        return "SAppendCb %s" % s[1]
    raise Unsupported("printer: " + k)


TARGETS = [
    # (file, class or None, python name, Coq name, mname)
    ("common.py", FUT, "__init__", "future_init_m", "M_future_init"),
    ("common.py", FUT, "_me_invoke_callbacks", "invoke_callbacks_m", "M_invoke_callbacks"),
    ("common.py", FUT, "add_done_callback", "add_done_callback_m", "M_add_done_callback"),
    ("common.py", FUT, "cancel", "cancel_m", "M_cancel"),
    ("common.py", None, "copy_future_exception", "copy_future_exception_m", "M_copy_future_exception"),
    ("common.py", None, "copy_exception", "copy_exception_m", "M_copy_exception"),
    ("common.py", None, "try_set_result", "try_set_result_m", "M_try_set_result"),
    ("map.py", MAPF, "__init__", "map_init_m", "M_map_init"),
    ("map.py", MAPF, "_set_delegate", "set_delegate_m", "M_set_delegate"),
    ("map.py", MAPF, "_delegate_failed", "delegate_failed_m", "M_delegate_failed"),
    ("map.py", MAPF, "_delegate_resolved", "delegate_resolved_m", "M_delegate_resolved"),
    ("map.py", MAPF, "_on_mapped", "map_on_mapped_m", "M_map_on_mapped"),
    ("map.py", MAPF, "set_result", "set_result_m", "M_set_result"),
    ("map.py", MAPF, "set_exception", "set_exception_m", "M_set_exception"),
    ("map.py", MAPF, "set_exception_info", "set_exception_info_m", "M_set_exception_info"),
    ("map.py", MAPF, "running", "running_m", "M_running"),
    ("map.py", MAPF, "_me_cancel", "me_cancel_m", "M_me_cancel"),
    ("flat_map.py", FLATF, "__init__", "flat_init_m", "M_flat_init"),
    ("flat_map.py", FLATF, "_on_mapped", "flat_on_mapped_m", "M_flat_on_mapped"),
]


def generate_text():
    trees = {"common.py": parse("common.py"), "map.py": parse("map.py"), "flat_map.py": parse("flat_map.py")}
    classes = dict(zip((FUT, MAPF, FLATF), check_facts(trees["common.py"], trees["map.py"], trees["flat_map.py"])))
    tr = T()
    defs = []
    for (rel, owner, pyname, coqname, mname) in TARGETS:
        fn = methods(classes[owner])[pyname] if owner else find_func(trees[rel], pyname)
        if fn.decorator_list:
            raise Unsupported("%s is decorated" % pyname)
        m = M(owner, pyname, fn, mname)
        body = tr.block(fn.body, m, toplevel=True)
        defs.append((rel, owner, pyname, coqname, m.params, body, fn.lineno))
    tr.check_callsites()
    out = ["(* GENERATED by tools/map2coq.py from more_executors/_impl/common.py, map.py, flat_map.py -- do not edit.",
           "   Regenerated on every check run.  Dropped (logging / assert whitelist, Python-2 branch, local import):"]
    for d in tr.dropped:
        out.append("     " + d.replace("(*", "( *").replace("*)", "* )"))
    out += ["   Not translated: _Future._me_cancel (the abstract hook `raise NotImplementedError`, overridden by MapFuture._me_cancel;",
            "   every translated class derives from MapFuture - checked).",
            "   Facts checked at translation time: class bases and the exact method sets of _Future / MapFuture / FlatMapFuture (the",
            "   dispatch table below), Future / RLock / InvalidStateError / sys are the stdlib ones, map.identity is the identity, the",
            "   interpreter's Future has neither exception_info nor set_exception_info, every call of copy_exception /",
            "   copy_future_exception / try_set_result passes the library future itself as the receiver.",
            "*)",
            "From Coq Require Import List String.",
            "Import ListNotations.",
            "From ME Require Import Model.MapFut Model.MapIR.",
            "Local Open Scope string_scope.",
            ""]
    for (rel, owner, pyname, coqname, params, body, line) in defs:
        out.append("(* %s:%d  %s *)" % (rel, line, (owner + "." if owner else "") + pyname))
        out.append("Definition %s : method :=" % coqname)
        out.append("  ([%s]," % "; ".join('"%s"' % p for p in params))
        out.append("   " + pp_list(body, 3) + ").")
        out.append("")
    out.append("(* the method table: self._on_mapped and the constructor are resolved by the future's class *)")
    out.append("Definition meth (k : kind) (m : mname) : option method :=")
    out.append("  match m with")
    for (rel, owner, pyname, coqname, params, body, line) in defs:
        mname = [t[4] for t in TARGETS if t[3] == coqname][0]
        out.append("  | %s => Some %s" % (mname, coqname))
    out.append("  | M_new => Some (match k with KMap => map_init_m | KFlat => flat_init_m end)")
    out.append("  | M_on_mapped => Some (match k with KMap => map_on_mapped_m | KFlat => flat_on_mapped_m end)")
    out.append("  end.")
    out.append("")
    return "\n".join(out)


def emit(name, text):
    os.makedirs(OUT, exist_ok=True)
    p = os.path.join(OUT, name)
    old = open(p).read() if os.path.exists(p) else None
    if old != text:
        open(p, "w").write(text)


def generate(name=NAME):
    """entry point for tools/pyk2coq.py (raises Unsupported)"""
    try:
        text = generate_text()
    except Unsupported:
        raise
    except (SyntaxError, IndexError, AttributeError, KeyError, ValueError, TypeError, OSError) as e:
        raise Unsupported("%s: %s" % (type(e).__name__, e))
    emit(name, text)


def main():
    try:
        generate(NAME)
        print("generated coq/Gen/%s" % NAME)
        sys.exit(0)
    except Unsupported as e:
        msg = "TRANSLATOR-FAIL-CLOSED: %s" % e
        for ext in (".vo", ".vok", ".vos", ".glob"):
            q = os.path.join(OUT, NAME[:-2] + ext)
            if os.path.exists(q):
                os.remove(q)
        emit(NAME, "(* %s *)\nDefinition translator_failed_closed : True := 0.\n" % msg.replace("*)", "* )").replace("(*", "( *")[:400])
        print("%s: %s" % (NAME, msg))
        sys.exit(2)


if __name__ == "__main__":
    main()
